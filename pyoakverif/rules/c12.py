"""C12 — Child and property accessors return exactly what the class definition dictates."""
from __future__ import annotations

from ..report import Checker
from . import templates_rules as T


def run(ck: Checker) -> None:
    ck.explanation = (
        "The four accessors are generated as text per class. The template builders of codegen.py are partially "
        "evaluated over the finite domain of field descriptors (name kind x compare x init, is_collection); every emitted "
        "fragment is parsed and decided: skip-flag truth tables (32 rows x 16 descriptors, exhaustive) for the generated and "
        "the static variant, presence test of single children (identity, not truthiness), enumeration shape (enumerate from 0, "
        "field closure variable), sort key / mapping order of the two branches, exhaustive re-installation of the bootstrap "
        "functions on every subclass."
    )
    ck.rule_text = "one obligation per (rule, descriptor or site); evaluations counts truth-table rows"
    ck.assumptions += ["dataclasses.fields order is declaration order with overrides in place (CPython)",
                       "dict preserves insertion order"]
    ck.guard("R-FLAGS-TT", lambda: T.r_flags_tt(ck))
    ck.guard("R-ACCESSOR-SIBLING", lambda: T.r_accessor_sibling(ck))
    ck.guard("R-ORDER-KEY", lambda: T.r_order_key(ck))
    ck.guard("R-ORDER-KEY", lambda: T.r_gen_stateless(ck))
    ck.guard("R-ORDER-KEY", lambda: T.r_field_order(ck))
    from . import state_rules as S
    ck.guard("R-TYPES-CACHE", lambda: S.r_class_attr_cache(ck, "R-TYPES-CACHE", ("pyoak.node", "pyoak.types", "pyoak.typing")))
    ck.guard("R-REINSTALL", lambda: T.r_reinstall(ck))
    ck.guard("R-PRESENCE", lambda: T.r_presence(ck))
    ck.guard("R-PRESENCE", lambda: T.r_child_abc(ck))
    ck.guard("R-ENUM-SHAPE", lambda: T.r_enum_shape(ck))
    ck.guard("R-ENUM-SHAPE", lambda: T.r_props_dict(ck))
    ck.guard("R-GEN-PURE", lambda: T.r_gen_pure(ck))
    ck.guard("R-TYPES-CACHE", lambda: T.r_types_cache(ck))
    from .c11 import r_child_kind
    ck.guard("R-CHILD-KIND", lambda: r_child_kind(ck))
    ck.guard("R-FLAGS-TT", lambda: T.r_gen_signature(ck))
    from .c05 import r_no_early_tables
    ck.guard("R-TYPES-CACHE", lambda: r_no_early_tables(ck))
    from .c11 import r_normalise
    ck.guard("R-NORMALISE", lambda: r_normalise(ck))  # the accessors report the annotation of the most derived class that declares a field
    from . import state_rules as S_
    ck.guard("R-GEN-PURE", lambda: S_.r_unstable_key(ck, "R-GEN-PURE", [("pyoak.node", "ASTNode.children"), ("pyoak.node", "ASTNode.get_properties"), ("pyoak.node", "ASTNode.get_child_nodes"), ("pyoak.node", "ASTNode.get_child_nodes_with_field"), ("pyoak.node", "ASTNode.iter_child_fields"), ("pyoak.node", "ASTNode.get_property_fields"), ("pyoak.node", "ASTNode.get_child_fields"), ("pyoak.node", "ASTNode.to_properties_dict")], "an accessor reports what the node holds and what its own class declares"))
    ck.require_count("R-FLAGS-TT", 16)
    ck.require_count("R-ACCESSOR-SIBLING", 17)
    ck.require_count("R-ORDER-KEY", 8)
    ck.require_count("R-REINSTALL", 17)
