"""C06 — Tree answers upward queries consistently with the downward structure."""
from __future__ import annotations

import ast

from ..astutil import dotted, is_none, norm, strip_docstring, unwrap_cast, walk_body
from ..digest import Dyn, Lit, eval_str
from ..dtree import decision_tree, strip_casts
from ..finite import k_eq, k_is, k_none
from ..report import Checker
from ..srcmodel import Func, Unsupported
from . import templates_rules as T
from .c02 import full_traversal
from .c10 import node_classes, node_evidence

TREE = "pyoak.tree"


def r_tree_fill(ck: Checker) -> None:
    f = ck.repo.func(TREE, "Tree.__init__")
    fn = f.node
    rootp = fn.args.args[1].arg
    loops = [st for st in fn.body if isinstance(st, ast.For)]
    what = "Tree.__init__ fills its tables from one full traversal of the root"
    if len(loops) != 1 or full_traversal(loops[0].iter) != rootp:
        ck.violation("R-TREE-FILL", f, fn, what, construct=f"Tree.__init__ iterates {[norm(l.iter)[:50] for l in loops]}")
        return
    ck.holds("R-TREE-FILL", f, loops[0], what)
    ck.holds("R-FULLTRAV", f, loops[0], "Tree.__init__ iterates a full traversal (dfs/bfs without prune/filter)")
    lp = loops[0]
    # the traversal record, however it is bound: `for n in ...` (n.node, n.parent, ...) or `for node, parent, field, findex in ...`
    rec_fields = [st.target.id for st in ck.repo.cls("pyoak.node", "NodeTraversalInfo").node.body if isinstance(st, ast.AnnAssign) and isinstance(st.target, ast.Name)]
    from ..normalize import _Subst
    import copy
    if isinstance(lp.target, ast.Name):
        sub = {lp.target.id: ast.Name(id="REC", ctx=ast.Load())}
    elif isinstance(lp.target, ast.Tuple) and len(lp.target.elts) == len(rec_fields) and all(isinstance(e, ast.Name) for e in lp.target.elts):
        sub = {e.id: ast.Attribute(value=ast.Name(id="REC", ctx=ast.Load()), attr=fld, ctx=ast.Load()) for e, fld in zip(lp.target.elts, rec_fields)}  # type: ignore[attr-defined]
    else:
        raise Unsupported("Tree.__init__: loop target is neither a record name nor a full unpacking of the record", lp)
    n = "REC"
    # a local and an attribute bound to each other name one table: `x = self._t` as well as `self._t = x`
    same: dict[str, ast.expr] = {}
    for st in fn.body[:fn.body.index(lp)]:
        if isinstance(st, ast.Assign) and len(st.targets) == 1:
            tg, vl = st.targets[0], st.value
            if isinstance(tg, ast.Attribute) and norm(tg.value) == "self" and isinstance(vl, ast.Name):
                same[vl.id] = ast.Attribute(value=ast.Name(id="self", ctx=ast.Load()), attr=tg.attr, ctx=ast.Load())
    aliases = [st for st in fn.body[:fn.body.index(lp)] if isinstance(st, ast.Assign) and len(st.targets) == 1 and isinstance(st.targets[0], ast.Name)
               and st.targets[0].id not in same]
    sub.update(same)
    lbody = [ast.fix_missing_locations(_Subst(sub).visit(copy.deepcopy(st))) for st in lp.body]
    lv = decision_tree(aliases + lbody, resolve=True)
    if len(lv) != 1 or lv[0].outcome != "fall":
        raise Unsupported("Tree.__init__: the table-filling loop body branches", lp)
    stores = {norm(st.targets[0].value): st for st in lv[0].stmts if isinstance(st, ast.Assign) and isinstance(st.targets[0], ast.Subscript)}
    mentions = {t: any(t in norm(st) for st in lv[0].stmts[len(aliases):]) for t in ("self._node_to_parent_info", "self._node_to_xpath")}
    pi = stores.get("self._node_to_parent_info")
    what = "the parent table maps every traversed node to (parent, field, index) of the same traversal record"
    if pi is None and mentions["self._node_to_parent_info"]:
        raise Unsupported("Tree.__init__: the parent table is filled by something other than a subscript store", lp)
    if pi is not None and norm(pi.targets[0].slice) == f"{n}.node" and norm(pi.value) in (
            f"ParentInfo({n}.parent, {n}.field, {n}.findex)", f"ParentInfo(parent={n}.parent, field={n}.field, findex={n}.findex)",
            f"ParentInfo(*{n}[1:])", f"ParentInfo({n}.parent, {n}.field, findex={n}.findex)"):
        ck.holds("R-TREE-FILL", f, lp, what)
    else:
        ck.violation("R-TREE-FILL", f, lp, what, construct=f"parent table store: {norm(pi)[:90] if pi is not None else None}")
    xp = stores.get("self._node_to_xpath")
    what = "the xpath of a node is its parent's xpath + '/@<field>[<index or 0>]<Class>'"
    ok = False
    if xp is None and mentions["self._node_to_xpath"]:
        raise Unsupported("Tree.__init__: the xpath table is filled by something other than a subscript store", lp)
    if xp is not None and norm(xp.targets[0].slice) == f"{n}.node":
        segs = eval_str(xp.value, {}, {})
        desc = [(s.text if isinstance(s, Lit) else "{" + s.src + "}") for s in segs]
        ok = desc[:4] == ["{self._node_to_xpath[" + n + ".parent]}", "/@", "{" + n + ".field.name}", "["] and len(desc) == 7 and desc[5] == "]" \
            and desc[4] in ("{" + n + ".findex or '0'}", "{" + n + ".findex or 0}", "{0 if " + n + ".findex is None else " + n + ".findex}") \
            and desc[6] in ("{" + n + ".node.__class__.__name__}", "{type(" + n + ".node).__name__}")
    if ok:
        ck.holds("R-TREE-FILL", f, lp, what)
    else:
        ck.violation("R-TREE-FILL", f, lp, what, construct=f"xpath store: {norm(xp.value)[:110] if xp is not None else None}")
    inits = {norm(st.target if isinstance(st, ast.AnnAssign) else st.targets[0]): st for st in fn.body if isinstance(st, (ast.Assign, ast.AnnAssign))}
    for loc, attr in same.items():  # the initial value of the table is that of the local it was bound to
        if loc in inits and isinstance(inits.get(norm(attr)), (ast.Assign, ast.AnnAssign)) and norm(inits[norm(attr)].value) == loc:
            inits[norm(attr)] = inits[loc]
    x0 = inits.get("self._node_to_xpath")
    p0 = inits.get("self._node_to_parent_info")
    what = "the membership table contains the root, the parent table does not"
    ok = x0 is not None and p0 is not None and isinstance(x0.value, ast.Dict) and len(x0.value.keys) == 1 and norm(x0.value.keys[0]) == rootp \
        and isinstance(p0.value, ast.Dict) and not p0.value.keys and norm(inits.get("self._root").value if inits.get("self._root") else ast.Constant(value=None)) == rootp
    if ok:
        rv = eval_str(x0.value.values[0], {}, {})
        ok = [(s.text if isinstance(s, Lit) else "{" + s.src + "}") for s in rv] in (["/@root[0]", "{" + rootp + ".__class__.__name__}"],)
    if ok:
        ck.holds("R-TREE-FILL", f, fn, what)
    else:
        # positively wrong initialisers; anything else is not decided
        wrong = None
        if x0 is not None and isinstance(x0.value, ast.Dict) and not x0.value.keys:
            wrong = "the membership table starts empty: the root is not in the tree"
        elif p0 is not None and isinstance(p0.value, ast.Dict) and p0.value.keys:
            wrong = f"the parent table starts with an entry for {norm(p0.value.keys[0])}: the root has no parent"
        elif x0 is not None and isinstance(x0.value, ast.Dict) and len(x0.value.keys) == 1 and norm(x0.value.keys[0]) == rootp:
            rv = [(s_.text if isinstance(s_, Lit) else "{" + s_.src + "}") for s_ in eval_str(x0.value.values[0], {}, {})]
            if rv and isinstance(rv[0], str) and rv[0].startswith("/") and rv[0] != "/@root[0]" and not rv[0].startswith("{"):
                wrong = f"the root is spelled {rv[0]!r}… instead of '/@root[0]<Class>'"
        if wrong is None:
            raise Unsupported("Tree.__init__: table initialisers not recognised", fn)
        ck.violation("R-TREE-FILL", f, fn, what, construct=f"Tree.__init__: {wrong}")
    g = ck.repo.func(TREE, "Tree.is_in_tree")
    rets = [s for s in walk_body(g.node.body) if isinstance(s, ast.Return)]
    what = "is_in_tree tests membership in the table that contains the root and every descendant"
    ok = len(rets) == 1 and rets[0].value is not None and norm(rets[0].value) == f"{g.node.args.args[1].arg} in self._node_to_xpath"
    (ck.holds if ok else ck.violation)("R-TREE-FILL", g, g.node, what, **({} if ok else {"construct": f"is_in_tree returns {[norm(r.value) for r in rets if r.value is not None]}"}))


def _tree_node_local(fn: ast.FunctionDef, e: ast.expr) -> bool:
    """A local of a Tree query that holds a node: bound to self.get_parent(...) or iterating self.get_ancestors(...)."""
    if not isinstance(e, ast.Name):
        return False
    for n in ast.walk(fn):
        if isinstance(n, (ast.Assign, ast.NamedExpr)):
            tgs = n.targets if isinstance(n, ast.Assign) else [n.target]
            if any(isinstance(t, ast.Name) and t.id == e.id for t in tgs) and norm(n.value).startswith(("self.get_parent(", "self._root")):
                return True
        if isinstance(n, (ast.For, ast.comprehension)) and isinstance(n.target, ast.Name) and n.target.id == e.id \
                and "get_ancestors(" in norm(n.iter):
            return True
    return False


def r_tree_ident(ck: Checker) -> None:
    ncls = node_classes(ck)
    n = 0
    for q in ("Tree.get_parent", "Tree.get_parent_info", "Tree.is_root", "Tree.get_depth", "Tree.is_ancestor", "Tree.get_ancestors",
              "Tree.get_first_ancestor_of_type"):
        f = ck.repo.func(TREE, q)
        for c in walk_body(f.node.body):
            if not (isinstance(c, ast.Compare) and len(c.ops) == 1):
                continue
            l, r = c.left, c.comparators[0]
            if is_none(l) or is_none(r):
                continue
            el = node_evidence(l, f, ncls) or (norm(l) == "self._root" and "the tree's root")
            er = node_evidence(r, f, ncls) or (norm(r) == "self._root" and "the tree's root")
            if (_tree_node_local(f.node, l) or norm(l).startswith("self.get_parent(")) and not el:
                el = "node local"
            if (_tree_node_local(f.node, r) or norm(r).startswith("self.get_parent(")) and not er:
                er = "node local"
            if not (el and er):
                continue
            n += 1
            what = "tree queries compare nodes by identity (twins that are == sit at different positions)"
            if isinstance(c.ops[0], (ast.Is, ast.IsNot)):
                ck.holds("R-TREE-IDENT", f, c, what, comparison=norm(c))
            else:
                ck.violation("R-TREE-IDENT", f, c, what, construct=f"{q}: {norm(c)} compares nodes by value")
    if n < 5:
        ck.incomplete("R-TREE-IDENT", None, None, f"only {n} node comparisons found (5 expected)")


def r_tree_keyerror_kept(ck: Checker) -> None:
    """The KeyError of a table subscription is how every Tree query reports a node outside the tree.  Positive pattern: a handler that
    catches KeyError (or wider) around such a lookup and leaves with anything but a KeyError."""
    c = ck.repo.cls(TREE, "Tree")
    n = 0
    for st in c.node.body:
        if not isinstance(st, ast.FunctionDef) or st.name == "__init__":
            continue
        n += 1
        what = f"Tree.{st.name}: a KeyError raised by a lookup of a node outside the tree reaches the caller as KeyError"
        bad = None
        for t in [x for x in ast.walk(st) if isinstance(x, ast.Try)]:
            looks = any((isinstance(x, ast.Subscript) and isinstance(x.value, ast.Attribute) and x.value.attr.startswith("_node_to")) or
                        (isinstance(x, ast.Call) and isinstance(x.func, ast.Attribute) and x.func.attr in ("get_parent", "get_parent_info", "get_ancestors", "get_xpath", "get_depth"))
                        for b in t.body for x in ast.walk(b))
            if not looks:
                continue
            for h in t.handlers:
                names = {"BaseException"} if h.type is None else {(dotted(x) or "").split(".")[-1] for x in ([h.type] if not isinstance(h.type, ast.Tuple) else h.type.elts)}
                if not names & {"KeyError", "LookupError", "Exception", "BaseException"}:
                    continue
                raises = [r for b in h.body for r in ast.walk(b) if isinstance(r, ast.Raise)]
                keeps = bool(raises) and all(r.exc is None or (h.name and norm(r.exc) == h.name) or "KeyError" in norm(r.exc) for r in raises) \
                    and isinstance(h.body[-1], ast.Raise)
                if not keeps:
                    bad = (h, sorted(names)[0])
        if bad:
            ck.violation("R-TREE-RAISE", (c.mod.rel, f"Tree.{st.name}"), bad[0], what, positive=True,
                         construct=f"Tree.{st.name}: `except {bad[1]}` around a table lookup leaves with {norm(bad[0].body[-1])[:50]} — a node outside the tree is no longer reported with KeyError")
        else:
            ck.holds("R-TREE-RAISE", (c.mod.rel, f"Tree.{st.name}"), st, what)


def r_tree_raise(ck: Checker) -> None:
    for q, table in (("Tree.get_xpath", "self._node_to_xpath"), ("Tree.get_parent", "self._node_to_parent_info"),
                     ("Tree.get_parent_info", "self._node_to_parent_info")):
        f = ck.repo.func(TREE, q)
        nodep = f.node.args.args[1].arg
        leaves = decision_tree(strip_docstring(f.node.body))
        what = f"{q} raises KeyError for a node outside the tree (table subscription, no default)"
        bad = []
        key = "is(" + ",".join(sorted((nodep, "self._root"))) + ")"
        for lf in leaves:
            if lf.assign.get(key) is True:
                v = lf.val()
                if q == "Tree.get_parent" and v != "None":
                    bad.append(f"root: returns {v}")
                if q == "Tree.get_parent_info" and v not in ("(None, None, None)",):
                    bad.append(f"root: returns {v}")
                continue
            if lf.outcome == "raise":
                if "KeyError" not in (lf.val() or ""):
                    bad.append(f"raises {lf.val()}")
                continue
            subs = [s for s in ast.walk(lf.value) if isinstance(s, ast.Subscript) and norm(s.value) == table and norm(s.slice) == nodep] if lf.value is not None else []
            if not subs:
                bad.append(f"non-root path returns {lf.val()} (no subscription of {table} by the node)")
            elif q == "Tree.get_parent" and lf.val() != f"{table}[{nodep}].parent":
                bad.append(f"returns {lf.val()}")
            elif q != "Tree.get_parent" and lf.val() != f"{table}[{nodep}]":
                bad.append(f"returns {lf.val()}")
        if q != "Tree.get_xpath" and not any(lf.assign.get(key) is True for lf in leaves):
            bad.append("the root is not distinguished")
        (ck.violation if bad else ck.holds)("R-TREE-RAISE", f, f.node, what, evaluations=len(leaves), **({"construct": f"{q}: {bad[0]}"} if bad else {}))
    f = ck.repo.func(TREE, "Tree.get_depth")
    body = strip_docstring(f.node.body)
    np_ = f.node.args.args[1].arg
    par = f"self.get_parent({np_})"
    leaves = decision_tree(body, alias_filter=lambda st: False, resolve="calls")
    k_rel = k_none("relative_to")
    k_chk = "check_ancestor"
    k_anc = f"self.is_ancestor({np_}, relative_to)"
    k_par = k_none(par)
    k_same = k_is(par, "relative_to")
    bad = []
    unrec = []
    for lf in leaves:
        a = lf.assign
        unknown = set(a) - {k_rel, k_chk, k_anc, k_par, k_same}
        if unknown:
            unrec.append(f"decides on {sorted(unknown)}")
            continue
        # identity is an equivalence: parent is relative_to  =>  (parent is None) == (relative_to is None)
        if a.get(k_same) is True and k_rel in a and k_par in a and a[k_rel] != a[k_par]:
            continue
        must_raise = a.get(k_rel) is False and a.get(k_chk) is True and a.get(k_anc) is False
        if lf.outcome == "raise":
            if not must_raise or "ValueError" not in (lf.val() or ""):
                bad.append(f"{a}: raises {lf.val()}")
            continue
        if must_raise:
            bad.append("relative depth to a non-ancestor does not raise ValueError")
            continue
        v = lf.val()
        if a.get(k_par) is True:
            if v != "0":
                bad.append(f"root depth is {v}")
        elif a.get(k_same) is True and (a.get(k_rel) is False or a.get(k_par) is False):
            if v != "1":
                bad.append(f"depth relative to the direct parent is {v}")
        else:
            if v not in (f"self.get_depth({par}, relative_to, False) + 1", f"1 + self.get_depth({par}, relative_to, False)",
                         f"self.get_depth({par}, relative_to, check_ancestor=False) + 1", f"self.get_depth({par}, relative_to=relative_to, check_ancestor=False) + 1"):
                (unrec if v and "get_depth" in v else bad).append(f"recursive case returns {v}")
    if not any(lf.outcome == "raise" for lf in leaves):
        bad.append("relative depth to a non-ancestor does not raise ValueError")
    what = "get_depth: ValueError iff relative_to is given, checked and not an ancestor; 0 at the root; 1 at the reference parent; else parent's depth + 1"
    if bad:
        ck.violation("R-TREE-RAISE", f, f.node, what, evaluations=len(leaves), construct=f"get_depth: {bad[0]}")
    elif unrec:
        raise Unsupported(f"get_depth: {unrec[0]}", f.node)
    else:
        ck.holds("R-TREE-RAISE", f, f.node, what, evaluations=len(leaves))


def r_tree_chain(ck: Checker) -> None:
    from ..loops import chain_generator, search_loop
    f = ck.repo.func(TREE, "Tree.get_ancestors")
    body = strip_docstring(f.node.body)
    nodep = f.node.args.args[1].arg
    what = "get_ancestors yields the parent chain: starts at get_parent(node) (never the node) and follows get_parent until None"
    v = chain_generator(body, nodep, lambda x: f"self.get_parent({x})", lambda x: f"self.get_ancestors({x})")
    if v.ok:
        ck.holds("R-TREE-CHAIN", f, f.node, what, evaluations=v.evaluations, proof=v.why)
    else:
        ck.violation("R-TREE-CHAIN", f, f.node, what, construct=f"get_ancestors: {v.why}")
    g = ck.repo.func(TREE, "Tree.is_ancestor")
    body = strip_docstring(g.node.body)
    np_, ap = g.node.args.args[1].arg, g.node.args.args[2].arg
    what = "is_ancestor(node, ancestor) is true iff `ancestor` is (identically) one of get_ancestors(node)"
    memb = [c for c in walk_body(body) if isinstance(c, ast.Compare) and len(c.ops) == 1 and isinstance(c.ops[0], (ast.In, ast.NotIn))
            and "get_ancestors(" in norm(c.comparators[0])]
    if memb:
        ck.violation("R-TREE-IDENT", g, memb[0], "tree queries compare nodes by identity (twins that are == sit at different positions)",
                     construct=f"Tree.is_ancestor: {norm(memb[0])} compares nodes by value (membership test uses ==)")
        return
    # every answer is given after the node was looked up in the tree (a foreign node raises KeyError, never gets an answer)
    early = [lf for lf in decision_tree(body) if lf.outcome == "return" and not any(isinstance(st, (ast.For, ast.While)) for st in lf.stmts)
             and not any("get_ancestors(" in norm(x) or "get_parent(" in norm(x) or "_node_to_" in norm(x) for x in [lf.value] + lf.stmts if x is not None)
             and not any("get_ancestors(" in k or "get_parent(" in k or "_node_to_" in k for k in lf.assign)]
    if early:
        ck.violation("R-TREE-RAISE", g, g.node, "Tree.is_ancestor raises KeyError for a node outside the tree (every answer follows a lookup of the node)",
                     construct=f"Tree.is_ancestor: answers {early[0].val()} under {early[0].assign} without looking the node up")
        return
    sr = search_loop(body)
    bad = None
    if sr.prologue:
        raise Unsupported("is_ancestor: code before the search loop", g.node)
    if norm(sr.iter) != f"self.get_ancestors({np_})":
        bad = f"searches {norm(sr.iter)[:60]} instead of get_ancestors({np_})"
    else:
        key = k_is(sr.target, ap)
        keq = k_eq(sr.target, ap)
        for lf in sr.leaves:
            if keq in lf.assign:
                bad = "compares by value (==) instead of identity"
                break
            if set(lf.assign) - {key}:
                raise Unsupported(f"is_ancestor: loop decides on {sorted(lf.assign)}", g.node)
            if key not in lf.assign:
                bad = "the loop leaves / continues without comparing the candidate with `ancestor`"
            elif lf.assign[key] and not (lf.outcome == "return" and lf.val() == "True"):
                bad = f"identical ancestor found: {lf.outcome} {lf.val()}"
            elif not lf.assign[key] and lf.outcome not in ("fall", "continue"):
                bad = f"different ancestor: {lf.outcome} {lf.val()}"
        if bad is None and (sr.default is None or norm(sr.default) != "False"):
            bad = f"no ancestor is identical: returns {norm(sr.default) if sr.default is not None else None}"
    (ck.holds if not bad else ck.violation)("R-TREE-CHAIN", g, g.node, what, **({"evaluations": len(sr.leaves)} if not bad else {"construct": f"is_ancestor: {bad}"}))
    h = ck.repo.func(TREE, "Tree.is_root")
    rets = [s for s in walk_body(h.node.body) if isinstance(s, ast.Return)]
    what = "is_root(node) is `node is the root`"
    ok = len(rets) == 1 and norm(rets[0].value) in ("self._root is node", "node is self._root")
    (ck.holds if ok else ck.violation)("R-TREE-CHAIN", h, h.node, what, **({} if ok else {"construct": f"is_root returns {[norm(r.value) for r in rets]}"}))


def r_tree_type(ck: Checker) -> None:
    f = ck.repo.func(TREE, "Tree.get_first_ancestor_of_type")
    body = strip_casts(strip_docstring(f.node.body))
    loops = [st for st in body if isinstance(st, ast.For)]
    if len(loops) != 1 or norm(loops[0].iter) != f"self.get_ancestors({f.node.args.args[1].arg})":
        ck.violation("R-TREE-TYPE", f, f.node, "get_first_ancestor_of_type searches get_ancestors(node) in order",
                     construct=f"iterates {[norm(l.iter) for l in loops]}")
        return
    lp = loops[0]
    a = norm(lp.target)
    early = [r for st in body[:body.index(lp)] for r in ast.walk(st) if isinstance(r, ast.Return)]
    if early:
        par_ = {id(c): p_ for st in body for p_ in ast.walk(st) for c in ast.iter_child_nodes(p_)}
        cond = par_.get(id(early[0]))
        ck.violation("R-TREE-TYPE", f, early[0], "get_first_ancestor_of_type answers from the ancestors of the node (every path to `return None` has searched them)", positive=True,
                     construct=f"get_first_ancestor_of_type: returns {norm(early[0].value) if early[0].value is not None else 'None'} before the ancestors are searched"
                     + (f" when `{norm(cond.test)[:60]}`" if isinstance(cond, ast.If) else "") + " — also for a node outside the tree, which must raise KeyError")
        return
    leaves = decision_tree(lp.body)
    clsv = None
    bad = []
    for lf in leaves:
        asg = lf.assign
        kin = next((k for k in asg if k.startswith(f"in(type({a}),")), None)
        kis = next((k for k in asg if k.startswith(f"isinstance({a},")), None)
        unknown = set(asg) - {"exact_type", kin, kis}
        if unknown or "exact_type" not in asg:
            bad.append(f"decides on {sorted(asg)}")
            continue
        exact = asg["exact_type"]
        accept = (asg.get(kin) if exact else asg.get(kis))
        if accept is None:
            bad.append(f"exact_type={exact}: the matching test is not consulted")
            continue
        if accept and not (lf.outcome == "return" and lf.val() == a):
            bad.append(f"{asg}: matching ancestor not returned ({lf.outcome} {lf.val()})")
        if not accept and lf.outcome == "return":
            bad.append(f"{asg}: non-matching ancestor returned")
        if kin:
            clsv = kin.split(",", 1)[1].rstrip(")").strip()
    tail = body[body.index(lp) + 1:]
    if not (len(tail) == 1 and isinstance(tail[0], ast.Return) and (tail[0].value is None or is_none(tail[0].value))):
        bad.append("no ancestor matches: does not return None")
    what = "get_first_ancestor_of_type returns the first ancestor a with (exact_type and type(a) in classes) or (not exact_type and isinstance(a, classes)), else None"
    (ck.violation if bad else ck.holds)("R-TREE-TYPE", f, f.node, what, evaluations=len(leaves), **({"construct": f"get_first_ancestor_of_type: {bad[0]}"} if bad else {}))


def r_tree_fresh(ck: Checker) -> None:
    """to_tree() builds a new Tree from the node it is called on, every time (a tree found by id would describe another root object
    once the id has been re-assigned)."""
    f = ck.repo.func("pyoak.node", "ASTNode.to_tree")
    what = "ASTNode.to_tree returns a Tree constructed from this very node on every call"
    bad = None
    n_ret = 0
    for lf in decision_tree([st for st in strip_docstring(f.node.body) if not isinstance(st, (ast.Import, ast.ImportFrom))], resolve="calls"):
        if lf.outcome != "return" or lf.value is None:
            continue
        n_ret += 1
        v = lf.value
        if not (isinstance(v, ast.Call) and (dotted(v.func) or "").split(".")[-1] in ("Tree", "PyOakTree") and [norm(a) for a in v.args] == ["self"] and not v.keywords):
            bad = f"returns {norm(v)[:60]} under {lf.assign}"
    if bad:
        ck.violation("R-TREE-STATE", f, f.node, what, construct=f"ASTNode.to_tree: {bad}")
    elif not n_ret:
        raise Unsupported("ASTNode.to_tree has no return path", f.node)
    else:
        ck.holds("R-TREE-STATE", f, f.node, what, evaluations=n_ret)


def r_tree_state(ck: Checker) -> None:
    """Tree queries are pure functions of the tables built at construction: no method but __init__ writes Tree state."""
    c = ck.repo.cls(TREE, "Tree")
    n = 0
    for st in c.node.body:
        if not isinstance(st, ast.FunctionDef) or st.name == "__init__":
            continue
        n += 1
        f = ck.repo.func(TREE, f"Tree.{st.name}")
        bad = None
        for x in walk_body(f.node.body):
            if isinstance(x, (ast.Attribute, ast.Subscript)) and isinstance(x.ctx, (ast.Store, ast.Del)) and norm(x).startswith("self."):
                bad = norm(x)
            if isinstance(x, ast.Call) and isinstance(x.func, ast.Attribute) and norm(x.func.value).startswith("self._") \
                    and x.func.attr in ("setdefault", "update", "pop", "clear", "append", "add", "popitem"):
                bad = norm(x)[:50]
        what = f"Tree.{st.name} does not write Tree state (answers cannot depend on earlier queries)"
        if bad:
            ck.violation("R-TREE-STATE", f, f.node, what, positive=True, construct=f"Tree.{st.name} writes {bad}")
        else:
            ck.holds("R-TREE-STATE", f, f.node, what)
    for d in c.node.body:
        if isinstance(d, ast.FunctionDef):
            for dec in d.decorator_list:
                if (dotted(dec.func if isinstance(dec, ast.Call) else dec) or "").split(".")[-1] in ("lru_cache", "cache", "cached_property"):
                    ck.violation("R-TREE-STATE", (c.mod.rel, f"Tree.{d.name}"), d, "Tree queries are not memoised", positive=True, construct=f"Tree.{d.name} is memoised")
    if n < 8:
        ck.incomplete("R-TREE-STATE", None, None, f"only {n} Tree methods (>= 8 expected)")


def run(ck: Checker) -> None:
    ck.explanation = (
        "Structural analysis of tree.py: both tables are filled from one full traversal with (parent, field, index) of the same record and "
        "the xpath spelled from the parent's xpath, field, index and class; node comparisons use identity; foreign nodes hit a table "
        "subscription (KeyError); get_ancestors is the parent chain; is_ancestor / get_first_ancestor_of_type / get_depth are decided as "
        "decision trees. Depth arithmetic beyond the base cases and reachability via the xpath string are not decided."
    )
    ck.rule_text = "one obligation per query function / table store / comparison"
    ck.assumptions += ["nodes hash by id and no node object occurs twice in the tree (premise of the property)"]
    ck.guard("R-TREE-FILL", lambda: r_tree_fill(ck))
    ck.guard("R-TREE-IDENT", lambda: r_tree_ident(ck))
    ck.guard("R-TREE-RAISE", lambda: r_tree_raise(ck))
    ck.guard("R-TREE-RAISE", lambda: r_tree_keyerror_kept(ck))
    from . import state_rules as S6
    ck.guard("R-TREE-CHAIN", lambda: S6.r_iter_once(ck, "R-TREE-CHAIN", ("pyoak.tree",)))
    ck.guard("R-TREE-FILL", lambda: S6.r_late_binding(ck, "R-TREE-FILL", ("pyoak.node", "pyoak.tree")))
    ck.guard("R-TREE-FILL", lambda: S6.r_groupby_on_nodes(ck, "R-TREE-FILL", ("pyoak.tree", "pyoak.node")))
    ck.guard("R-TREE-FILL", lambda: S6.r_position_not_by_content(ck, "R-TREE-FILL", [("pyoak.node", "ASTNode.dfs"), ("pyoak.node", "ASTNode.bfs"), ("pyoak.tree", "Tree.__init__")]))
    ck.guard("R-TYPES-CACHE", lambda: S6.r_class_attr_cache(ck, "R-TYPES-CACHE", ("pyoak.node", "pyoak.types", "pyoak.typing", "pyoak.tree")))
    ck.guard("R-TREE-CHAIN", lambda: r_tree_chain(ck))
    ck.guard("R-TREE-TYPE", lambda: r_tree_type(ck))
    ck.guard("R-TREE-STATE", lambda: r_tree_state(ck))
    ck.guard("R-TREE-STATE", lambda: r_tree_fresh(ck))
    from . import state_rules as S
    ck.guard("R-TREE-STATE", lambda: S.r_shared_defaults(ck, "R-TREE-STATE", TREE, ("Tree",)))
    ck.guard("R-PRESENCE", lambda: T.r_presence(ck))
    ck.guard("R-PRESENCE", lambda: T.r_child_abc(ck))
    ck.guard("R-TYPES-CACHE", lambda: T.r_types_cache(ck))
    ck.guard("R-REINSTALL", lambda: T.r_reinstall(ck))
    from . import state_rules as S_
    ck.guard("R-TREE-IDENT", lambda: S_.r_unstable_key(ck, "R-TREE-IDENT", [("pyoak.tree", "Tree"), ("pyoak.node", "ASTNode.to_tree")], "a Tree describes the root it was built from"))
    from .c05 import r_traversals
    ck.guard("R-WORKLIST", lambda: r_traversals(ck))  # the tables hold what the traversal visits  # the tables are filled from dfs(): a child value is never classified by an ABC test
    ck.require_count("R-TREE-FILL", 5)
    ck.require_count("R-TREE-RAISE", 4)
    ck.require_count("R-TREE-CHAIN", 3)
