"""C02 — == is content equality plus origin equality at every position."""
from __future__ import annotations

import ast

from ..astutil import strip_docstring, decorators, dotted, is_const, kw, norm, walk_body
from ..dtree import bool_function, leave, strip_casts
from ..effects import scan_writes
from ..finite import NeedAtom, discover_atoms, truth_table
from ..report import Checker
from ..srcmodel import Func, Unsupported
from . import templates_rules as T

NODE = "pyoak.node"
CLASS_ATOMS = {"is(other.__class__,self.__class__)", "is(type(other),type(self))"}


def full_traversal(e: ast.expr) -> str | None:
    """'x' when e is x.dfs()/x.bfs() without prune/filter (bottom_up allowed), possibly wrapped in list/tuple/iter."""
    while isinstance(e, ast.Call) and dotted(e.func) in ("list", "tuple", "iter") and len(e.args) == 1:
        e = e.args[0]
    if isinstance(e, ast.Call) and isinstance(e.func, ast.Attribute) and e.func.attr in ("dfs", "bfs"):
        if e.args:
            return None
        for k in e.keywords:
            if k.arg in ("prune", "filter") and not (isinstance(k.value, ast.Constant) and k.value.value is None):
                return None
            if k.arg not in ("prune", "filter", "bottom_up"):
                return None
        return norm(e.func.value)
    return None


def r_eq_form(ck: Checker) -> None:
    f = ck.repo.func(NODE, "_eq_fn")
    a = f.node.args.args
    if len(a) != 2:
        raise Unsupported("_eq_fn does not take two operands", f.node)
    s, o = a[0].arg, a[1].arg
    import copy

    class Ren(ast.NodeTransformer):
        def visit_Name(self, n: ast.Name) -> ast.AST:
            if n.id == s:
                return ast.copy_location(ast.Name(id="self", ctx=n.ctx), n)
            if n.id == o:
                return ast.copy_location(ast.Name(id="other", ctx=n.ctx), n)
            return n

    body = [ast.fix_missing_locations(Ren().visit(copy.deepcopy(st))) for st in strip_casts(f.node.body)]
    loop_info: dict[str, object] = {}

    # a positive pattern: the origins below the two operands are compared as unordered / de-duplicated / re-ordered collections
    def bag(e: ast.expr) -> str | None:
        if isinstance(e, ast.SetComp):
            return "a set"
        if isinstance(e, ast.Call) and dotted(e.func) in ("set", "frozenset", "sorted", "Counter", "collections.Counter") and e.args:
            return f"{dotted(e.func)}(...)"
        return None

    for c in [n for st in body for n in ast.walk(st) if isinstance(n, ast.Compare) and len(n.ops) == 1 and isinstance(n.ops[0], (ast.Eq, ast.NotEq))]:
        l_, r_ = c.left, c.comparators[0]
        if bag(l_) and bag(r_) and ".origin" in norm(l_) and ".origin" in norm(r_) and any(isinstance(x, ast.Call) and isinstance(x.func, ast.Attribute)
                                                                                          and x.func.attr in ("dfs", "bfs") for x in ast.walk(c)):
            ck.violation("R-EQ-FORM", f, c, "_eq_fn compares the origins position by position",
                         positive=True, construct=f"_eq_fn compares {bag(l_)} of the descendants' origins of each operand: two trees whose origins are swapped between positions (or repeated) are equal")
            return

    def analyse_positions(it: ast.expr, tg: ast.expr, test: ast.expr, where: ast.AST, differ_means_true: bool) -> bool:
        """Checks the iteration source (zip of full traversals of both operands) and the per-position test.
        ``differ_means_true``: the test is true when the two origins at a position differ."""
        if not (isinstance(it, ast.Call) and dotted(it.func) == "zip" and len(it.args) == 2):
            ck.violation("R-FULLTRAV", f, where, "_eq_fn compares the origins at every position: zip of full traversals of both operands",
                         construct=f"_eq_fn loop iterates {norm(it)[:70]}")
            return False
        owners = [full_traversal(x) for x in it.args]
        what = "_eq_fn compares the origins at every position: zip of full traversals (dfs/bfs without prune/filter) of both operands"

        def sig(x: ast.expr) -> tuple:
            while isinstance(x, ast.Call) and dotted(x.func) in ("list", "tuple", "iter") and len(x.args) == 1:
                x = x.args[0]
            assert isinstance(x, ast.Call) and isinstance(x.func, ast.Attribute)
            return (x.func.attr, sorted((k.arg, norm(k.value)) for k in x.keywords))

        if sorted(x or "?" for x in owners) != ["other", "self"]:
            ck.violation("R-FULLTRAV", f, where, what, construct=f"_eq_fn zips {[norm(x)[:40] for x in it.args]}")
            return False
        if sig(it.args[0]) != sig(it.args[1]):
            ck.violation("R-FULLTRAV", f, where, what, construct="_eq_fn traverses the operands with different methods / arguments")
            return False
        ck.holds("R-FULLTRAV", f, where, what, iter=norm(it))
        if not (isinstance(tg, ast.Tuple) and len(tg.elts) == 2):
            raise Unsupported("target of the position iteration", where)
        t1, t2 = norm(tg.elts[0]), norm(tg.elts[1])
        atoms = discover_atoms(test)
        want = "eq(" + ",".join(sorted((f"{t1}.node.origin", f"{t2}.node.origin"))) + ")"
        what2 = "the position test distinguishes exactly unequal origins at a position (value comparison)"
        if atoms != [want]:
            ck.violation("R-EQ-FORM", f, where, what2, construct=f"position test decides on {atoms}")
            return False
        rows_ = truth_table(test, {want: (True, False)})
        if any(bool(v) != ((not a_[want]) if differ_means_true else a_[want]) for a_, v in rows_):
            ck.violation("R-EQ-FORM", f, where, what2, construct=f"position test {norm(test)} has the wrong polarity")
            return False
        ck.holds("R-EQ-FORM", f, where, what2, evaluations=2)
        return True

    def hook(lp: ast.stmt, assign: dict) -> object:
        if not isinstance(lp, ast.For):
            raise Unsupported("while loop in _eq_fn", lp)
        if len(lp.body) == 1 and isinstance(lp.body[0], ast.If) and not lp.body[0].orelse and lp.body[0].body and isinstance(lp.body[0].body[-1], ast.Break):
            # search form: `if <origins differ>: <flag = ..>; break` with an else clause: interpreted through its summary
            if not analyse_positions(lp.iter, lp.target, lp.body[0].test, lp, True):
                loop_info["bad"] = True
                return None
            loop_info["seen"] = True
            summary = ast.If(test=ast.Name(id="LOOP:all_positions_equal", ctx=ast.Load()), body=list(lp.orelse) or [ast.Pass()],
                             orelse=list(lp.body[0].body[:-1]) or [ast.Pass()])
            return [ast.fix_missing_locations(ast.copy_location(summary, lp))]
        if not (len(lp.body) == 1 and isinstance(lp.body[0], ast.If) and not lp.body[0].orelse and len(lp.body[0].body) == 1
                and isinstance(lp.body[0].body[0], ast.Return)):
            raise Unsupported("body of the position loop is not `if <origins differ>: return False`", lp)
        if not analyse_positions(lp.iter, lp.target, lp.body[0].test, lp, True):
            loop_info["bad"] = True
            return None
        loop_info["seen"] = True
        if "LOOP:all_positions_equal" not in assign:
            raise NeedAtom("LOOP:all_positions_equal", lp)
        if not assign["LOOP:all_positions_equal"]:
            return leave("return", lp.body[0].body[0].value)
        return None

    def call_hook(c: ast.Call, assign: dict) -> object:
        """any(<origins differ> for a, b in zip(..)) / all(<origins equal> for ...) : the same abstraction as the loop."""
        name = dotted(c.func)
        if name not in ("any", "all") or len(c.args) != 1 or not isinstance(c.args[0], (ast.GeneratorExp, ast.ListComp)):
            return NotImplemented
        g = c.args[0]
        if len(g.generators) != 1 or g.generators[0].ifs:
            return NotImplemented
        if not (isinstance(g.generators[0].iter, ast.Call) and dotted(g.generators[0].iter.func) == "zip"):
            return NotImplemented
        if not analyse_positions(g.generators[0].iter, g.generators[0].target, g.elt, c, name == "any"):
            loop_info["bad"] = True
            return name == "all"
        loop_info["seen"] = True
        if "LOOP:all_positions_equal" not in assign:
            raise NeedAtom("LOOP:all_positions_equal", c)
        alleq = assign["LOOP:all_positions_equal"]
        return (not alleq) if name == "any" else alleq

    rows = bool_function(body, loop_hook=hook, call_hook=call_hook, resolve=True)
    if loop_info.get("bad"):
        return
    cid = "eq(other.content_id,self.content_id)"
    org = "eq(other.origin,self.origin)"
    lp = "LOOP:all_positions_equal"
    atoms = set()
    for a_, v, lf in rows:
        atoms |= set(a_)
    cls = [k for k in atoms if k in CLASS_ATOMS]
    what = ("_eq_fn returns True exactly when: class identity and equal content_id and equal root origin and equal origins at "
            "every position; nothing but the class of `other` is read before the class test")
    extra = atoms - set(cls) - {cid, org, lp}
    if len(cls) != 1 or extra or not {cid, org, lp} <= atoms:
        missing = sorted({cid, org, lp} - atoms)
        ck.violation("R-EQ-FORM", f, f.node, what,
                     construct=f"_eq_fn decides on {sorted(atoms)}" + (f"; missing {missing}" if missing else ""))
        return
    c = cls[0]
    bad = []
    for a_, v, lf in rows:
        if v is None or isinstance(v, str):
            bad.append({"row": a_, "outcome": str(v)})
            continue
        exp = all(a_.get(k, False) for k in (c, cid, org, lp))
        if bool(v) != exp:
            bad.append({"row": a_, "value": bool(v)})
        if list(a_)[0] != c:
            bad.append({"row": a_, "problem": "an attribute of `other` is read before the class test"})
    if bad:
        ck.violation("R-EQ-FORM", f, f.node, what, evaluations=len(rows), construct=f"_eq_fn formula wrong: {bad[0]}", rows=bad[:4])
    else:
        ck.holds("R-EQ-FORM", f, f.node, what, evaluations=len(rows), atoms=sorted(atoms))


def r_eq_install(ck: Checker) -> None:
    isc = ck.repo.func(NODE, "ASTNode.__init_subclass__")
    inst = {}
    for st in walk_body(isc.node.body):
        if isinstance(st, ast.Assign) and isinstance(st.targets[0], ast.Attribute) and norm(st.targets[0].value) == "cls":
            inst[st.targets[0].attr] = norm(st.value)
    # the installation happens on every path through __init_subclass__ (dataclass would otherwise generate its own __eq__ for the class)
    from ..dtree import decision_tree
    paths = decision_tree(strip_docstring(isc.node.body), try_as_body=True, max_atoms=8)
    for attr, fn in (("__eq__", "_eq_fn"), ("__hash__", "_hash_fn")):
        what = f"every subclass gets {attr} = {fn}"
        missing = [lf for lf in paths if lf.outcome != "raise" and not any(
            isinstance(st, ast.Assign) and isinstance(st.targets[0], ast.Attribute) and norm(st.targets[0].value) == "cls" and st.targets[0].attr == attr
            and norm(st.value) == fn for st in lf.stmts)]
        if inst.get(attr) != fn:
            ck.violation("R-EQ-INSTALL", isc, isc.node, what, construct=f"__init_subclass__: cls.{attr} = {inst.get(attr)}")
        elif missing:
            ck.violation("R-EQ-INSTALL", isc, isc.node, what, evaluations=len(paths),
                         construct=f"__init_subclass__: cls.{attr} = {fn} is skipped when {missing[0].assign} (the class then gets the dataclass-generated {attr})")
        else:
            ck.holds("R-EQ-INSTALL", isc, isc.node, what, evaluations=len(paths))
    # the base class itself keeps the dataclass-generated __eq__: origin must take part in it, the derived ids must not
    from ..dcmodel import own_fields
    base = ck.repo.cls(NODE, "ASTNode")
    flds = {f_.name: f_ for f_ in own_fields(base)}
    what = "ASTNode's own fields: origin is compared by the generated __eq__ of the base class, id / content_id are not"
    probs = []
    if "origin" in flds and flds["origin"].compare is False:
        probs.append("origin is declared compare=False (plain ASTNode instances compare equal whatever their origin)")
    for nm in ("id", "content_id"):
        if nm in flds and flds[nm].compare is not False:
            probs.append(f"{nm} is not declared compare=False")
    if probs:
        ck.violation("R-EQ-INSTALL", (base.mod.rel, "class ASTNode"), base.node, what, construct=f"class ASTNode: {probs[0]}")
    elif "origin" in flds:
        ck.holds("R-EQ-INSTALL", (base.mod.rel, "class ASTNode"), base.node, what)
    else:
        raise Unsupported("class ASTNode: field origin not found", base.node)
    c = ck.repo.cls(NODE, "ASTNode")
    cl = {}
    for st in c.node.body:
        if isinstance(st, ast.Assign) and isinstance(st.targets[0], ast.Name):
            cl[st.targets[0].id] = norm(st.value)
    what = "ASTNode.__hash__ is _hash_fn"
    (ck.holds if cl.get("__hash__") == "_hash_fn" else ck.violation)(
        "R-EQ-INSTALL", (c.mod.rel, "class ASTNode"), c.node, what,
        **({} if cl.get("__hash__") == "_hash_fn" else {"construct": f"ASTNode.__hash__ = {cl.get('__hash__')}"}))
    mods = ck.repo.nonlegacy()
    what = "no node class defines __ne__/__eq__/__hash__ by hand (!= is the negation Python derives from the installed __eq__)"
    bad = False
    for cc in [c] + ck.repo.subclasses_of("ASTNode", mods):
        for st in cc.node.body:
            if isinstance(st, ast.FunctionDef) and st.name in ("__ne__", "__eq__", "__hash__"):
                bad = True
                ck.violation("R-EQ-INSTALL", (cc.mod.rel, f"{cc.name}.{st.name}"), st, what, construct=f"{cc.name} defines {st.name}")
            if isinstance(st, ast.Assign) and isinstance(st.targets[0], ast.Name) and st.targets[0].id in ("__ne__", "__eq__") :
                bad = True
                ck.violation("R-EQ-INSTALL", (cc.mod.rel, f"class {cc.name}"), st, what, construct=f"{cc.name} assigns {norm(st)[:40]}")
    if not bad:
        ck.holds("R-EQ-INSTALL", (c.mod.rel, "class ASTNode"), c.node, what)


def r_hash_const(ck: Checker) -> None:
    f = ck.repo.func(NODE, "_hash_fn")
    p = f.node.args.args[0].arg
    rets = [n for n in walk_body(f.node.body) if isinstance(n, ast.Return)]
    what = "_hash_fn depends only on node.id"
    if len(rets) == 1 and rets[0].value is not None and norm(rets[0].value) == f"hash({p}.id)":
        ck.holds("R-HASH-CONST", f, rets[0], what)
    else:
        ck.violation("R-HASH-CONST", f, f.node, what, construct=f"_hash_fn returns {[norm(r.value) for r in rets if r.value is not None]}")
    ws = [w for w in scan_writes(ck.repo, ck.repo.nonlegacy()) if w.attr == "id"]
    what = "the id of a node is written only while the object is under construction (__post_init__ on self, _deserialize on the fresh object)"
    from ..dcmodel import fresh_object_local
    allowed = {("ASTNode.__post_init__", "self"), ("ASTNode._deserialize", fresh_object_local(ck.repo.func(NODE, "ASTNode._deserialize").node))}
    for w in ws:
        if (w.func.qualname, w.recv) in allowed and w.func.mod.name == NODE:
            ck.holds("R-HASH-CONST", w.func, w.node, what, receiver=w.recv)
        else:
            ck.violation("R-HASH-CONST", w.func, w.node, what, construct=f"id written in {w.func.qualname} on {w.recv}")
    if len(ws) < 2:
        ck.incomplete("R-HASH-CONST", None, None, f"only {len(ws)} id writes found (2 expected)")


def r_origin_eq(ck: Checker) -> None:
    m = ck.repo.mod("pyoak.origin")
    n = 0
    for st in m.tree.body:
        if not isinstance(st, ast.ClassDef):
            continue
        n += 1
        what = f"origin.py class {st.name} uses the generated dataclass equality (no hand-written __eq__/__ne__, eq not disabled)"
        bad = None
        for b in st.body:
            if isinstance(b, ast.FunctionDef) and b.name in ("__eq__", "__ne__"):
                bad = f"defines {b.name}"
        for name, call in decorators(st):
            if name in ("dataclass", "dataclasses.dataclass") and call is not None:
                v = kw(call, "eq")
                if v is not None and not is_const(v, True):
                    bad = f"dataclass(eq={norm(v)})"
        if bad:
            ck.violation("R-ORIGIN-EQ", (m.rel, f"class {st.name}"), st, what, construct=f"{st.name} {bad}")
        else:
            ck.holds("R-ORIGIN-EQ", (m.rel, f"class {st.name}"), st, what)
    if n < 18:
        ck.incomplete("R-ORIGIN-EQ", None, None, f"only {n} classes in origin.py (>= 18 expected)")


def run(ck: Checker) -> None:
    ck.explanation = (
        "Decision tree of _eq_fn over its comparison atoms, with the position loop abstracted to one atom after checking that it zips "
        "full traversals of both operands and returns False on the first unequal origin: the function is True exactly on the conjunction "
        "class identity, content_id equality, root origin equality, origins equal at every position (hence reflexive/symmetric/transitive "
        "given the atoms are equivalences of the same projection on both operands). Installation of __eq__/__hash__ on subclasses, hash "
        "depends on id only and id is written only under construction, origin classes use generated dataclass equality, generated child "
        "enumeration is complete (identity presence test)."
    )
    ck.rule_text = "one obligation per decided function / installation site / class"
    ck.assumptions += ["dataclasses keeps an __eq__/__hash__ set in __init_subclass__ before the decorator runs (CPython _set_new_attribute)",
                       "content_id equality implies equal tree shape (C01)"]
    ck.guard("R-EQ-FORM", lambda: r_eq_form(ck))
    ck.guard("R-EQ-INSTALL", lambda: r_eq_install(ck))
    ck.guard("R-HASH-CONST", lambda: r_hash_const(ck))
    ck.guard("R-ORIGIN-EQ", lambda: r_origin_eq(ck))
    ck.guard("R-PRESENCE", lambda: T.r_presence(ck))
    from .c05 import r_traversals
    ck.guard("R-WORKLIST", lambda: r_traversals(ck))  # "every position" is what the zipped traversals visit
    ck.guard("R-TYPES-CACHE", lambda: T.r_types_cache(ck))  # ... of the fields the class itself declares
    ck.guard("R-REINSTALL", lambda: T.r_reinstall(ck))
    ck.guard("R-ENUM-SHAPE", lambda: T.r_enum_shape(ck))
    from . import state_rules as S
    ck.guard("R-FULLTRAV", lambda: S.r_pruned_walk(ck, "R-FULLTRAV", [(NODE, "_eq_fn")], "== compares the origins at every position"))
    ck.guard("R-FULLTRAV", lambda: S.r_position_not_by_content(ck, "R-FULLTRAV", [(NODE, "ASTNode.dfs"), (NODE, "ASTNode.bfs"), (NODE, "_eq_fn")]))
    ck.guard("R-EQ-FORM", lambda: S.r_unstable_key(ck, "R-EQ-FORM", [(NODE, "_eq_fn"), (NODE, "_hash_fn")], "== is decided by the two trees as they are now"))
    ck.require_count("R-EQ-FORM", 2)
    ck.require_count("R-FULLTRAV", 1)
