"""C15 — Origin algebra: interval laws, hull merging, flat multi-origins, exact slices."""
from __future__ import annotations

import ast
import itertools
from typing import Any

from ..astutil import alpha, dotted, is_const, norm, walk_body
from ..finite import NeedAtom, k_eq
from ..dtree import decision_tree
from ..ordertypes import OrderEval, P, R, Raised, weak_orderings
from ..dcmodel import positional_call
from ..report import Checker
from ..srcmodel import Unsupported

ORIGIN = "pyoak.origin"


def _ranges(oe: OrderEval, ranks: tuple[int, ...]) -> list[R] | None:
    """Construct the ranges (s0,e0),(s1,e1),... through the analysed constructor guard; None if rejected."""
    out = []
    for i in range(0, len(ranks), 2):
        try:
            out.append(oe.construct("CodeRange", start=P(ranks[i]), end=P(ranks[i + 1])))
        except Raised:
            return None
    return out


def r_no_total_ordering(ck: Checker) -> bool:
    """functools.total_ordering derives <=, >, >= from __lt__ and __eq__; the dataclass __eq__ of CodePoint compares index, line and
    column, the order compares the index only: the derived comparisons then disagree with the index order for points that share an index."""
    from ..astutil import decorators
    fired = False
    for cname in ("CodePoint", "CodeRange"):
        c = ck.repo.cls(ORIGIN, cname)
        for name, _ in decorators(c.node):
            if name.split(".")[-1] == "total_ordering":
                fired = True
                ck.violation("R-INTERVAL-LAWS", (c.mod.rel, f"class {cname}"), c.node,
                             f"{cname} spells out its comparisons on the index (they are not derived from the field-wise dataclass equality)",
                             construct=f"class {cname} is decorated with total_ordering (<=, >, >= follow the field-wise __eq__, not the index)")
    return fired


def r_interval_laws(ck: Checker) -> None:
    if r_no_total_ordering(ck):
        return
    oe = OrderEval(ck.repo)
    cr = ck.repo.cls(ORIGIN, "CodeRange")
    where = (cr.mod.rel, "class CodeRange")

    def law(name: str, what: str, k: int, check) -> None:
        bad = []
        n = 0
        admitted = 0
        for ranks in weak_orderings(k):
            n += 1
            rs = _ranges(oe, ranks)
            wellformed = all(ranks[i] <= ranks[i + 1] for i in range(0, k, 2))
            if (rs is not None) != wellformed:
                bad.append({"ordering": ranks, "problem": f"constructor {'accepts' if rs is not None else 'rejects'} start/end ranks"})
                continue
            if rs is None:
                continue
            admitted += 1
            try:
                msg = check(rs)
            except Raised as e:
                msg = f"raises {e.exc}"
            if msg:
                bad.append({"ordering": ranks, "problem": msg})
        if bad:
            ck.violation("R-INTERVAL-LAWS", where, cr.node, what, evaluations=n,
                         construct=f"{name}: fails for {len(bad)} of {n} orderings, e.g. {bad[0]}", failing=bad[:3])
        else:
            ck.holds("R-INTERVAL-LAWS", where, cr.node, what, evaluations=n, orderings=n, admitted=admitted)

    def idx(r: R) -> tuple[int, int]:
        return (r.start.index, r.end.index)

    def contains(a: R, b: R) -> bool:  # b in a
        return bool(oe.call("CodeRange", "__contains__", a, b))

    def overlaps(a: R, b: R) -> bool:
        return bool(oe.call("CodeRange", "overlaps", a, b))

    def lt(a: R, b: R) -> bool:
        return bool(oe.call("CodeRange", "__lt__", a, b))

    def hull(a: R, b: R) -> R:
        return oe.call("CodeRange", "__add__", a, b)

    law("construct", "CodeRange is accepted exactly when start <= end (all orderings of 2 points)", 2, lambda rs: None)
    law("contains", "b in a  <=>  a.start <= b.start and b.end <= a.end (all weak orderings of 4 points)", 4,
        lambda rs: None if contains(rs[0], rs[1]) == (idx(rs[0])[0] <= idx(rs[1])[0] and idx(rs[1])[1] <= idx(rs[0])[1]) else "containment differs from the reference formula")
    law("contains-refl", "containment is reflexive", 2, lambda rs: None if contains(rs[0], rs[0]) else "a not in a")
    law("contains-antisym", "containment is antisymmetric on indices", 4,
        lambda rs: None if not (contains(rs[0], rs[1]) and contains(rs[1], rs[0])) or idx(rs[0]) == idx(rs[1]) else "mutual containment of different ranges")
    law("overlaps", "a.overlaps(b)  <=>  a.end >= b.start and a.start <= b.end (touching ranges overlap)", 4,
        lambda rs: None if overlaps(rs[0], rs[1]) == (idx(rs[0])[1] >= idx(rs[1])[0] and idx(rs[0])[0] <= idx(rs[1])[1]) else "overlap differs from the reference formula")
    law("overlaps-sym", "overlap is symmetric", 4, lambda rs: None if overlaps(rs[0], rs[1]) == overlaps(rs[1], rs[0]) else "overlap not symmetric")
    law("lt", "a < b  <=>  a.end < b.start", 4, lambda rs: None if lt(rs[0], rs[1]) == (idx(rs[0])[1] < idx(rs[1])[0]) else "< differs from the reference formula")
    law("lt-disjoint", "a < b implies not a.overlaps(b)", 4, lambda rs: None if not (lt(rs[0], rs[1]) and overlaps(rs[0], rs[1])) else "a < b and overlap")
    law("hull", "a + b is the hull (min start, max end), contains both operands, is commutative", 4,
        lambda rs: None if (idx(hull(rs[0], rs[1])) == (min(idx(rs[0])[0], idx(rs[1])[0]), max(idx(rs[0])[1], idx(rs[1])[1]))
                            and contains(hull(rs[0], rs[1]), rs[0]) and contains(hull(rs[0], rs[1]), rs[1])
                            and idx(hull(rs[0], rs[1])) == idx(hull(rs[1], rs[0]))) else "hull differs from (min start, max end) / does not contain an operand / not commutative")
    law("hull-idem", "a + a == a", 2, lambda rs: None if idx(hull(rs[0], rs[0])) == idx(rs[0]) else "hull not idempotent")
    if ck.tier == "thorough" or True:
        # 6 points: transitivity and associativity (4683 orderings, 818 admitted)
        law("contains-trans", "containment is transitive (all weak orderings of 6 points)", 6,
            lambda rs: None if not (contains(rs[0], rs[1]) and contains(rs[1], rs[2])) or contains(rs[0], rs[2]) else "containment not transitive")
        law("hull-assoc", "(a + b) + c == a + (b + c) (all weak orderings of 6 points)", 6,
            lambda rs: None if idx(hull(hull(rs[0], rs[1]), rs[2])) == idx(hull(rs[0], hull(rs[1], rs[2]))) else "hull not associative")
        law("lt-trans", "a < b and b < c implies a < c", 6,
            lambda rs: None if not (lt(rs[0], rs[1]) and lt(rs[1], rs[2])) or lt(rs[0], rs[2]) else "< not transitive")

    # CodePoint order and construction guards at the boundary values
    cp = ck.repo.cls(ORIGIN, "CodePoint")
    wherep = (cp.mod.rel, "class CodePoint")
    bad = []
    n = 0
    for a, b in itertools.product(range(3), repeat=2):
        n += 1
        if bool(oe.call("CodePoint", "__lt__", P(a), P(b))) != (a < b):
            bad.append(f"{a} < {b}")
        if bool(oe.call("CodePoint", "__le__", P(a), P(b))) != (a <= b):
            bad.append(f"{a} <= {b}")
    what = "code points are ordered by index (< and <= over all pairs of 3 ranks)"
    (ck.violation if bad else ck.holds)("R-INTERVAL-LAWS", wherep, cp.node, what, evaluations=n,
                                        **({"construct": f"CodePoint order wrong for {bad[:3]}"} if bad else {}))
    bad = []
    n = 0
    for index, line, column in itertools.product((-1, 0, 1), (0, 1, 2), (-1, 0, 1)):
        n += 1
        ok_expected = index >= 0 and line >= 1 and column >= 0
        try:
            oe.construct("CodePoint", index=index, line=line, column=column)
            ok = True
        except Raised:
            ok = False
        if ok != ok_expected:
            bad.append((index, line, column))
    what = "ill-formed code points are rejected: index >= 0, line >= 1, column >= 0 (boundary values)"
    (ck.violation if bad else ck.holds)("R-INTERVAL-LAWS", wherep, cp.node, what, evaluations=n,
                                        **({"construct": f"CodePoint guard wrong for (index,line,column) in {bad[:3]}"} if bad else {}))


def r_add_form(ck: Checker) -> None:
    f = ck.repo.func(ORIGIN, "CodeOrigin.__add__")
    leaves = decision_tree(f.node.body, resolve="calls")
    # the sum is always a new origin (hull or multi-origin), never one of the operands handed back: an operand of a subclass
    # (GeneratedCodeOrigin, ...) has its own get_raw() / fqn
    handed_back = [lf for lf in leaves if lf.outcome == "return" and lf.val() in ("self", "other")]
    if handed_back:
        ck.violation("R-ADD-FORM", f, f.node, "CodeOrigin.__add__ returns a CodeOrigin over the hull or delegates to merge_origins; it never returns an operand itself",
                     construct=f"CodeOrigin.__add__: returns the operand `{handed_back[0].val()}` when {handed_back[0].assign}")
        return
    k_inst = "isinstance(other, CodeOrigin)"
    k_src = "eq(other.source,self.source)"
    k_ov = "self.position.overlaps(other.position)"
    k_ov2 = "other.position.overlaps(self.position)"
    bad = []
    merged = 0
    for lf in leaves:
        a = lf.assign
        unknown = set(a) - {k_inst, k_src, k_ov, k_ov2}
        if "is(other.source,self.source)" in unknown:
            bad.append("the sources are compared by identity (equal sources held as distinct objects are not merged)")
            continue
        if unknown:
            raise Unsupported(f"CodeOrigin.__add__ decides on {sorted(unknown)}", f.node)
        ov = a.get(k_ov, a.get(k_ov2))
        all_true = a.get(k_inst) is True and a.get(k_src) is True and ov is True
        v = lf.val() or ""
        if lf.outcome != "return":
            bad.append(f"{a}: {lf.outcome}")
        elif all_true:
            merged += 1
            if v not in ("CodeOrigin(source=self.source, position=self.position + other.position)",
                         "CodeOrigin(self.source, self.position + other.position)",
                         "CodeOrigin(source=self.source, position=other.position + self.position)"):
                bad.append(f"merge path returns {v}")
        else:
            if v not in ("super().__add__(other)", "merge_origins(self, other)"):
                bad.append(f"{a}: returns {v} instead of delegating to merge_origins")
            if a.get(k_inst) is None or (a.get(k_inst) and a.get(k_src) is None):
                bad.append(f"{a}: result decided without testing the kind / source of the other operand")
    if not merged:
        bad.append("no path merges two overlapping code origins of one source")
    what = ("CodeOrigin.__add__ returns one CodeOrigin over the hull exactly when the other operand is a CodeOrigin of an equal source "
            "whose range overlaps or touches; every other case delegates to merge_origins")
    if bad:
        ck.violation("R-ADD-FORM", f, f.node, what, evaluations=len(leaves), construct=f"CodeOrigin.__add__: {bad[0]}")
    else:
        ck.holds("R-ADD-FORM", f, f.node, what, evaluations=len(leaves))
    g = ck.repo.func(ORIGIN, "Origin.__add__")
    rets = [s for s in walk_body(g.node.body) if isinstance(s, ast.Return)]
    what = "Origin.__add__ is merge_origins(self, other)"
    if len(rets) == 1 and rets[0].value is not None and norm(rets[0].value) == "merge_origins(self, other)":
        ck.holds("R-ADD-FORM", g, rets[0], what)
    else:
        ck.violation("R-ADD-FORM", g, g.node, what, construct=f"Origin.__add__ returns {[norm(r.value) for r in rets if r.value is not None]}")


def _single_unpack(lf, acc: str) -> bool:
    """`only, = acc` ; `return only` : the single remaining operand itself."""
    if lf.value is None or not isinstance(lf.value, ast.Name):
        return False
    for st in lf.stmts:
        if isinstance(st, ast.Assign) and isinstance(st.targets[0], (ast.Tuple, ast.List)) and len(st.targets[0].elts) == 1 \
                and norm(st.targets[0].elts[0]) == lf.value.id and norm(st.value) == acc:
            return True
    return False


def r_merge_flat(ck: Checker) -> None:
    f = ck.repo.func(ORIGIN, "merge_origins")
    fn = f.node
    va = fn.args.vararg.arg if fn.args.vararg else None
    if va is None:
        raise Unsupported("merge_origins takes no *origins", fn)
    loops = [s for s in fn.body if isinstance(s, ast.For) and norm(s.iter) == va
             and any(isinstance(c, ast.Call) and isinstance(c.func, ast.Attribute) and c.func.attr in ("append", "extend") for c in walk_body(s.body))]
    if len(loops) != 1:
        raise Unsupported("merge_origins is not a single collecting loop over its operands", fn)
    lp = loops[0]
    o = norm(lp.target)
    from ..normalize import resolve_path

    def canon_ops(stmts: list[ast.stmt]) -> list[str]:
        """`for x in S: acc.append(x)` is `acc.extend(S)`."""
        out = []
        for st in resolve_path(stmts):
            if isinstance(st, ast.For) and isinstance(st.target, ast.Name):
                inner = [x for x in resolve_path(st.body) if not (isinstance(x, ast.Assign) and isinstance(x.targets[0], ast.Name))]
                if len(inner) == 1 and isinstance(inner[0], ast.Expr) and isinstance(inner[0].value, ast.Call) and isinstance(inner[0].value.func, ast.Attribute) \
                        and inner[0].value.func.attr == "append" and [norm(a) for a in inner[0].value.args] == [st.target.id]:
                    out.append(f"{norm(inner[0].value.func.value)}.extend({norm(st.iter)})")
                    continue
            if isinstance(st, ast.Assign) and isinstance(st.targets[0], ast.Name):
                continue  # a local holding the element
            out.append(norm(st))
        return out

    leaves = decision_tree(lp.body)
    k_no, k_multi = f"isinstance({o}, NoOrigin)", f"isinstance({o}, MultiOrigin)"
    acc = None
    bad = []
    for lf in leaves:
        a = lf.assign
        if set(a) - {k_no, k_multi}:
            bad.append(f"decides on {sorted(set(a) - {k_no, k_multi})}")
            continue
        ops = canon_ops(lf.stmts)
        if a.get(k_no):
            if ops:
                bad.append(f"NoOrigin operand is not skipped: {ops}")
        elif a.get(k_multi):
            if len(ops) != 1 or not ops[0].endswith(f".extend({o}.origins)"):
                bad.append(f"MultiOrigin operand is not spliced: {ops}")
            else:
                acc = ops[0].split(".extend")[0]
        else:
            if k_no not in a or k_multi not in a:
                bad.append(f"{a}: operand kind not tested")
            if len(ops) != 1 or not ops[0].endswith(f".append({o})"):
                bad.append(f"plain operand is not appended: {ops}")
    what = "merge_origins: NoOrigin operands are skipped, MultiOrigin operands are spliced, all others appended, in operand order"
    if bad:
        ck.violation("R-MERGE-FLAT", f, lp, what, evaluations=len(leaves), construct=f"merge_origins loop: {bad[0]}")
    else:
        ck.holds("R-MERGE-FLAT", f, lp, what, evaluations=len(leaves))
    # result selection after the loop
    idx = fn.body.index(lp)
    tail = fn.body[idx + 1:]
    if acc is None:
        raise Unsupported("merge_origins: accumulator of the operand loop not identified", lp)
    leaves = decision_tree(tail, domain=lambda k: (0, 1, 2, 3) if k == f"len({acc})" else (True, False), sized=(acc,))
    bad = []
    for lf in leaves:
        n = lf.assign.get(f"len({acc})")
        v = lf.rval()
        if n is None:
            bad.append("result chosen without looking at the number of remaining operands")
        elif n == 0 and v not in ("NoOrigin()", "NO_ORIGIN"):
            bad.append(f"nothing remains: returns {v}")
        elif n == 1 and v not in (f"{acc}[0]", f"{acc}[-1]") and not _single_unpack(lf, acc):
            bad.append(f"one operand remains: returns {v}")
        elif n >= 2 and v not in (f"MultiOrigin(origins={acc})", f"MultiOrigin({acc})", f"MultiOrigin(origins=tuple({acc}))", f"MultiOrigin(tuple({acc}))"):
            bad.append(f"{n} operands remain: returns {v}")
    what = "merge_origins returns NoOrigin when nothing remains, the operand itself when one remains, otherwise one flat MultiOrigin"
    if bad:
        ck.violation("R-MERGE-FLAT", f, fn, what, evaluations=len(leaves), construct=f"merge_origins result: {bad[0]}")
    else:
        ck.holds("R-MERGE-FLAT", f, fn, what, evaluations=len(leaves))
    # MultiOrigin is constructed nowhere else
    sites = []
    for g in ck.repo.functions(list(ck.repo.mods.values())):
        for c in walk_body(g.node.body):
            if isinstance(c, ast.Call) and (dotted(c.func) or "").split(".")[-1] == "MultiOrigin":
                sites.append(g)
    what = "MultiOrigin is constructed only by merge_origins (so multi-origins are never nested and never contain NoOrigin)"
    foreign = [g.key for g in sites if g.key != f.key]
    if foreign:
        ck.violation("R-MERGE-FLAT", f, fn, what, construct=f"MultiOrigin constructed in {foreign}")
    elif not sites:
        ck.incomplete("R-MERGE-FLAT", f, fn, "no construction site of MultiOrigin found")
    else:
        ck.holds("R-MERGE-FLAT", f, fn, what, sites=len(sites))
    # concat_origins folds with +
    c = ck.repo.func(ORIGIN, "concat_origins")
    loops = [s for s in c.node.body if isinstance(s, ast.For)]
    what = "concat_origins folds its operands left to right with +"
    ok = False
    if len(loops) == 1 and c.node.args.vararg and norm(loops[0].iter) == c.node.args.vararg.arg and len(loops[0].body) == 1:
        st = loops[0].body[0]
        t = norm(loops[0].target)
        if isinstance(st, ast.AugAssign) and isinstance(st.op, ast.Add) and norm(st.value) == t:
            accv = norm(st.target)
            ok = True
        elif isinstance(st, ast.Assign) and isinstance(st.value, ast.BinOp) and isinstance(st.value.op, ast.Add) \
                and norm(st.value.left) == norm(st.targets[0]) and norm(st.value.right) == t:
            accv = norm(st.targets[0])
            ok = True
        if ok:
            rets = [s for s in walk_body(c.node.body) if isinstance(s, ast.Return)]
            first = c.node.args.args[0].arg
            inits = [s for s in c.node.body if isinstance(s, ast.Assign) and norm(s.targets[0]) == accv and norm(s.value) == first]
            ok = (bool(inits) or accv == first) and any(r.value is not None and norm(r.value) == accv for r in rets)
    if not ok:
        # functools.reduce with an addition operator over the operands, starting from the first one
        first = c.node.args.args[0].arg
        va = c.node.args.vararg.arg if c.node.args.vararg else None
        for r_ in [x for x in walk_body(c.node.body) if isinstance(x, ast.Return) and isinstance(x.value, ast.Call)]:
            cl = r_.value
            if (dotted(cl.func) or "").split(".")[-1] == "reduce" and len(cl.args) == 3 and not cl.keywords:
                op, seq, init = cl.args
                op_ok = norm(op) in ("operator.iadd", "operator.add", "iadd", "add") or (
                    isinstance(op, ast.Lambda) and len(op.args.args) == 2 and isinstance(op.body, ast.BinOp) and isinstance(op.body.op, ast.Add)
                    and norm(op.body.left) == op.args.args[0].arg and norm(op.body.right) == op.args.args[1].arg)
                ok = op_ok and norm(seq) == va and norm(init) == first
    if not ok and len(loops) == 1:
        # a positive pattern: on some path of the loop the accumulator is rebuilt with the flat merge instead of `accumulator + next`
        accs = {norm(st.target) for st in walk_body(loops[0].body) if isinstance(st, ast.AugAssign) and isinstance(st.op, ast.Add)} | \
            {norm(st.targets[0]) for st in walk_body(loops[0].body) if isinstance(st, ast.Assign) and isinstance(st.value, ast.BinOp) and isinstance(st.value.op, ast.Add)
             and norm(st.value.left) == norm(st.targets[0])}
        for st in walk_body(loops[0].body):
            if isinstance(st, ast.Assign) and norm(st.targets[0]) in accs and isinstance(st.value, ast.Call) and dotted(st.value.func) in ("merge_origins", "MultiOrigin"):
                ck.violation("R-MERGE-FLAT", c, st, what, positive=True, construct=f"concat_origins: on one path the accumulator becomes {norm(st.value)[:50]} instead of accumulator + next: "
                             "the result is no longer the left fold of + over the operands")
                return
    if not ok and not any("+" in norm(x) or "add" in norm(x) for x in c.node.body):
        ok = False
    elif not ok:
        raise Unsupported("concat_origins: fold with + not recognised", c.node)
    (ck.holds if ok else ck.violation)("R-MERGE-FLAT", c, c.node, what, **({} if ok else {"construct": "concat_origins: fold with + not recognised"}))
    r_multiorigin_init(ck)


def r_multiorigin_init(ck: Checker, rule: str = "R-MERGE-FLAT") -> None:
    # MultiOrigin.__post_init__: source / position inferred in operand order
    m = ck.repo.func(ORIGIN, "MultiOrigin.__post_init__")
    what = "MultiOrigin infers its source (common source or SourceSet) and PositionSet from the members in operand order (no sort / set)"
    k_common = ("all((_b0.source == self.origins[0].source for _b0 in self.origins[1:]))", "all((self.origins[0].source == _b0.source for _b0 in self.origins[1:]))",
                "all((_b0.source == self.origins[0].source for _b0 in self.origins))", "all((self.origins[0].source == _b0.source for _b0 in self.origins))")
    amap: dict[str, str] = {}

    def common_hook(c: ast.Call, assign: dict) -> object:
        if dotted(c.func) in ("all", "any"):
            key = alpha(c)
            amap[norm(c)] = key
            if key not in assign:
                raise NeedAtom(key, c)
            return assign[key]
        return NotImplemented

    def search_hook(lp: ast.stmt, assign: dict) -> object:
        """for o in self.origins[1:]: if o.source != first.source: <different>; break   else: <common>
        is the common-source test written as a search: replaced by `if all(...): <common> else: <different>`."""
        if not (isinstance(lp, ast.For) and isinstance(lp.target, ast.Name) and norm(lp.iter) in ("self.origins[1:]", "self.origins")):
            raise Unsupported("loop in MultiOrigin.__post_init__ is not a search over the members", lp)
        t = lp.target.id
        if not (len(lp.body) == 1 and isinstance(lp.body[0], ast.If) and not lp.body[0].orelse and lp.body[0].body and isinstance(lp.body[0].body[-1], ast.Break)):
            raise Unsupported("member search loop is not `if <source differs>: ...; break`", lp)
        test = lp.body[0].test
        from ..finite import canon_cmp
        pol = True
        while isinstance(test, ast.UnaryOp) and isinstance(test.op, ast.Not):
            test, pol = test.operand, not pol
        cc = canon_cmp(test) if isinstance(test, ast.Compare) else None
        want = k_eq(f"{t}.source", "self.origins[0].source")
        if cc is None or cc[0] != want or (cc[1] == pol):
            raise Unsupported(f"member search tests {norm(lp.body[0].test)[:60]}", lp)
        if any(isinstance(n_, ast.Name) and n_.id == t for st_ in lp.body[0].body[:-1] for n_ in ast.walk(st_)):
            raise Unsupported("the differing-source branch uses the member found", lp)
        allc = ast.parse(f"all(({t}.source == self.origins[0].source for {t} in {norm(lp.iter)}))", mode="eval").body
        summary = ast.If(test=allc, body=list(lp.orelse) or [ast.Pass()], orelse=list(lp.body[0].body[:-1]) or [ast.Pass()])
        return [ast.fix_missing_locations(ast.copy_location(summary, lp))]

    leaves = decision_tree(m.node.body, call_hook=common_hook, loop_hook=search_hook, domain=lambda k: (0, 1, 2, 3) if k.startswith("len(") else (True, False))
    bad = []
    bad_pos: list[str] = []
    n_ok = 0
    for lf in leaves:
        a_ = lf.assign
        n = a_.get("len(self.origins)")
        if lf.outcome == "raise":
            if n is None or n >= 2:
                bad.append(f"{a_}: raises for a proper member list")
            continue
        if n is not None and n < 2:
            continue  # fewer than two members accepted: not this rule's business (merge_origins never builds such)
        others = sorted(k for k in a_ if k != "len(self.origins)")
        ident = [k for k in others if k.startswith("all((") and " is " in k and ".source" in k]
        if ident:
            bad.append("the common-source test compares sources by identity (equal sources held as distinct objects give a SourceSet, "
                       "yet the deserialised origin, whose sources are canonical, gets the single source)")
            continue
        skipping = None
        for k in [k for k in others if k not in k_common and k.startswith(("all((", "any(("))]:
            try:
                ce = ast.parse(k, mode="eval").body
            except SyntaxError:
                continue
            g0 = ce.args[0] if isinstance(ce, ast.Call) and ce.args and isinstance(ce.args[0], (ast.GeneratorExp, ast.ListComp)) else None
            if g0 is None:
                continue
            its = [g0.generators[0].iter] + ([g0] if g0.generators[0].ifs else [])
            it0 = its[0].value if isinstance(its[0], ast.Subscript) else its[0]
            if isinstance(it0, ast.Name):
                defs = [st for st in walk_body(m.node.body) if isinstance(st, ast.Assign) and len(st.targets) == 1 and norm(st.targets[0]) == it0.id]
                its += [d.value for d in defs]
            for e_ in its:
                if (isinstance(e_, (ast.ListComp, ast.GeneratorExp, ast.SetComp)) and any(g_.ifs for g_ in e_.generators) and "self.origins" in norm(e_)) \
                        or (isinstance(e_, ast.Call) and dotted(e_.func) in ("filter", "itertools.filterfalse", "filterfalse") and "self.origins" in norm(e_)):
                    skipping = norm(e_)[:70]
        if skipping:
            bad_pos.append(f"the common-source test ranges over a filtered member list ({skipping}): a listed member whose source differs is ignored, "
                           "and the multi-origin claims one source for all of them")
            continue
        if [k for k in others if k not in k_common]:
            raise Unsupported(f"MultiOrigin.__post_init__ decides on {others}", m.node)
        common = any(a_.get(k) for k in k_common if k in a_) if others else None
        stmts_, _ = lf.resolved()
        sets: dict[str, list[str]] = {}
        for c2 in walk_body(stmts_):
            if isinstance(c2, ast.Call) and dotted(c2.func) in ("object.__setattr__", "setattr") and len(c2.args) == 3 and isinstance(c2.args[1], ast.Constant):
                sets.setdefault(c2.args[1].value, []).append(alpha(positional_call(ck.repo, c2.args[2], ORIGIN)))
        src, pos = sets.get("source", []), sets.get("position", [])
        if pos[-1:] != ["PositionSet(tuple((_b0.position for _b0 in self.origins)))"]:
            bad.append(f"position is {pos}")
        if common is None:
            if src[-1:] in (["self.origins[0].source"], ["SourceSet(tuple((_b0.source for _b0 in self.origins)))"]):
                bad.append(f"source chosen without the common-source test (always {src[-1]})")
            else:
                raise Unsupported(f"MultiOrigin.__post_init__: how the source {src[-1:] or '?'} is chosen was not recognised", m.node)
        elif common and src[-1:] != ["self.origins[0].source"]:
            bad.append(f"common source: source is {src}")
        elif not common and src[-1:] != ["SourceSet(tuple((_b0.source for _b0 in self.origins)))"]:
            bad.append(f"different sources: source is {src}")
        n_ok += 1
    if bad_pos:
        ck.violation(rule, m, m.node, what, positive=True, construct=f"MultiOrigin.__post_init__: {bad_pos[0]}")
    elif bad:
        ck.violation(rule, m, m.node, what, construct=f"MultiOrigin.__post_init__: {bad[0]}")
    elif not n_ok:
        raise Unsupported("MultiOrigin.__post_init__: no accepting path found", m.node)
    else:
        ck.holds(rule, m, m.node, what, evaluations=len(leaves))


def r_slice(ck: Checker) -> None:
    f = ck.repo.func(ORIGIN, "CodeOrigin.get_raw")
    rets = [s for s in walk_body(f.node.body) if isinstance(s, ast.Return) and s.value is not None and not is_const(s.value, None)]
    what = "CodeOrigin.get_raw slices the source text with exactly position.start.index : position.end.index"
    ok = False
    if len(rets) == 1 and isinstance(rets[0].value, ast.Subscript) and isinstance(rets[0].value.slice, ast.Slice):
        sl = rets[0].value.slice
        base = norm(rets[0].value.value)
        src_assign = [s for s in f.node.body if isinstance(s, ast.Assign) and norm(s.targets[0]) == base and norm(s.value) == "self.source.get_raw()"]
        ok = (sl.lower is not None and sl.upper is not None and sl.step is None and norm(sl.lower) == "self.position.start.index"
              and norm(sl.upper) == "self.position.end.index" and bool(src_assign))
    if ok:
        ck.holds("R-SLICE", f, rets[0], what)
    else:
        ck.violation("R-SLICE", f, f.node, what, construct=f"get_raw returns {[norm(r.value)[:70] for r in rets]}")


def run(ck: Checker) -> None:
    ck.explanation = (
        "CodePoint/CodeRange are touched only through comparisons of .index, so the comparison methods of origin.py are decided over "
        "all weak orderings of the points involved (75 orderings of 4 points for the binary laws, 4683 of 6 points for transitivity and "
        "associativity) with operator dispatch resolved through the analysed class table: equivalence with the reference formulas and the "
        "algebraic laws, construction guards at boundary values. CodeOrigin.__add__, merge_origins, concat_origins and "
        "MultiOrigin.__post_init__ are decided as decision trees / structural forms; get_raw's slice bounds are checked."
    )
    ck.rule_text = "one obligation per law (evaluations = orderings enumerated, exhaustive) and per decided function"
    ck.assumptions += ["a > b falls back to b.__lt__(a) when __gt__ is absent; min/max use < / >", "fqn composition beyond member order is not decided"]
    ck.guard("R-INTERVAL-LAWS", lambda: r_interval_laws(ck))
    ck.guard("R-ADD-FORM", lambda: r_add_form(ck))
    ck.guard("R-MERGE-FLAT", lambda: r_merge_flat(ck))
    from . import state_rules as S_
    ck.guard("R-MERGE-FLAT", lambda: S_.r_unstable_key(ck, "R-MERGE-FLAT", [(ORIGIN, "merge_origins"), (ORIGIN, "concat_origins"), (ORIGIN, "MultiOrigin.__post_init__"), (ORIGIN, "CodeOrigin.__add__"), (ORIGIN, "Origin.__add__")], "the result lists the operands of this call"))
    ck.guard("R-SLICE", lambda: r_slice(ck))
    from . import state_rules as S15
    ck.guard("R-INTERVAL-LAWS", lambda: S15.r_no_raw_construction(ck, "R-INTERVAL-LAWS", ORIGIN, ("CodePoint", "CodeRange", "CodeOrigin", "MultiOrigin")))
    ck.guard("R-INTERVAL-LAWS", lambda: S15.r_flag_pairing(ck, "R-INTERVAL-LAWS", (ORIGIN,)))  # the construction guards are never switched off for what comes later
    from .c10 import r_operand_alias_mutation
    ck.guard("R-MERGE-FLAT", lambda: r_operand_alias_mutation(ck, "R-MERGE-FLAT"))  # a + b leaves a and b as they were
    ck.require_count("R-INTERVAL-LAWS", 12)
    ck.require_count("R-MERGE-FLAT", 5)
