"""C07 — XPath search and XPath match agree with each other and the documented semantics."""
from __future__ import annotations

import ast
import copy

from ..astutil import is_const, dotted, is_none, norm, strip_docstring, walk_body, walk_local
from ..dtree import bool_function, decision_tree, leave
from ..finite import k_eq, k_is, k_none, NeedAtom
from ..flow import Interp, Semantics
from ..grammar import arg_uses, lift, load
from ..report import Checker
from ..srcmodel import Func, Unsupported
from .c02 import full_traversal

XP = "pyoak.match.xpath"
NODE = "pyoak.node"


def r_gram_arity(ck: Checker, modname: str, rule: str = "R-GRAM-ARITY") -> None:
    g = load(lift(ck.repo, modname, "xpath_grammar"))
    tcls = ck.repo.cls(modname, "XPathTransformer")
    methods = {st.name: ck.repo.func(modname, f"XPathTransformer.{st.name}").node for st in tcls.node.body
               if isinstance(st, ast.FunctionDef) and not ck.repo.is_new_helper(tcls.mod, f"XPathTransformer.{st.name}")}
    n = 0
    for name, r in g.rules.items():
        fn = methods.get(name)
        where = Func(tcls.mod, f"XPathTransformer.{name}", fn, tcls.node) if fn else (tcls.mod.rel, "class XPathTransformer")
        if fn is None:
            ck.violation(rule, where, tcls.node, f"grammar rule {name} has a transformer callback", construct=f"no callback for rule {name}")
            continue
        n += 1
        param = fn.args.args[1].arg
        u = arg_uses(fn, param)
        variadic = [s for s in r.symbols if s.many]
        what = (f"callback {name}: consumes what rule `{name}` can produce "
                f"({'variadic: ' + ','.join(s.name for s in variadic) if variadic else 'fixed arity ' + str(len(r.symbols))})")
        if variadic and not u.whole_uses:
            ck.violation(rule, where, fn, what,
                         construct=f"{name}: rule yields a variable number of {[s.name for s in variadic]} but the callback reads only {u.const_reads or 'nothing'}",
                         reads=u.const_reads)
        elif not variadic and not u.whole_uses:
            mx = len(r.symbols)
            idx = []
            for cr in u.const_reads:
                try:
                    idx.append(int(cr.split("[")[1].rstrip("]")))
                except ValueError:
                    pass
            if any(i >= mx for i in idx):
                ck.violation(rule, where, fn, what, construct=f"{name}: reads {u.const_reads} but the rule keeps at most {mx} symbols")
            else:
                ck.holds(rule, where, fn, what, reads=u.const_reads)
        else:
            ck.holds(rule, where, fn, what, whole_uses=u.whole_uses[:3], reads=u.const_reads)
    for m in methods:
        if not m.startswith("_") and m not in g.rules:
            ck.violation(rule, (tcls.mod.rel, f"XPathTransformer.{m}"), methods[m], "every transformer callback names a grammar rule",
                         construct=f"callback {m} names no rule")
    what = "the xpath grammar ignores whitespace between tokens"
    if "WS" in g.ignore:
        ck.holds("R-WS", (tcls.mod.rel, "xpath_grammar"), None, what)
    else:
        ck.violation("R-WS", (tcls.mod.rel, "xpath_grammar"), None, what, construct="xpath_grammar does not %ignore WS")
    # digits: all of them significant -> the index callback must combine every DIGIT token
    idx_rule = g.rules.get("index_spec")
    if idx_rule is not None and "index_spec" in methods:
        fn = methods["index_spec"]
        param = fn.args.args[1].arg
        rets = [s for s in walk_body(fn.body) if isinstance(s, ast.Return) and s.value is not None and not isinstance(s.value, (ast.Constant, ast.UnaryOp))]
        what = "index_spec converts all digits of the index (int of the joined DIGIT tokens)"
        ok = any(norm(r.value) in (f"int(''.join({param}))", f"int(''.join(map(str, {param})))", f"int(''.join([str(x) for x in {param}]))")
                 or (isinstance(r.value, ast.Call) and dotted(r.value.func) == "int" and "join" in norm(r.value) and param in norm(r.value)) for r in rets)
        if ok:
            ck.holds(rule, Func(tcls.mod, "XPathTransformer.index_spec", fn, tcls.node), fn, what)
        elif any(s.many for s in idx_rule.symbols):
            ck.violation(rule, Func(tcls.mod, "XPathTransformer.index_spec", fn, tcls.node), fn, what,
                         construct=f"index_spec returns {[norm(r.value) for r in rets]} for a multi-token index")
    if n < 6:
        ck.incomplete(rule, None, None, f"only {n} grammar rules with callbacks (6 expected)")


def r_step_predicate(ck: Checker, f: Func, info: str, el: str, *, field_expr: str | None = None, rule: str = "R-XP-SHARED") -> None:
    """Truth table of the step predicate: instance and (field given => field equal) and (index given => index equal)."""
    rows = bool_function(strip_docstring(f.node.body))
    k_inst = f"isinstance({info}.node, {el}.ast_class)"
    k_pf_none = k_none(f"{el}.parent_field")
    k_f_none = k_none(f"{info}.field")
    k_f_eq = "eq(" + ",".join(sorted((f"{el}.parent_field", f"{info}.field.name"))) + ")"
    k_pi_none = k_none(f"{el}.parent_index")
    k_i_eq = "eq(" + ",".join(sorted((f"{el}.parent_index", f"{info}.findex"))) + ")"
    known = {k_inst, k_pf_none, k_f_none, k_f_eq, k_pi_none, k_i_eq}
    bad = []
    for a, v, lf in rows:
        if set(a) - known:
            bad.append({"unknown atoms": sorted(set(a) - known)})
            continue
        if v is None or isinstance(v, str):
            bad.append({"row": a, "outcome": str(v)})
            continue
        # expected value under every completion of the unassigned atoms must agree (the function may not skip a needed atom)
        def exp(full: dict) -> bool:
            return bool(full[k_inst] and (full[k_pf_none] or (not full[k_f_none] and full[k_f_eq])) and (full[k_pi_none] or full[k_i_eq]))
        import itertools
        free = [k for k in known if k not in a]
        vals = set()
        for combo in itertools.product((True, False), repeat=len(free)):
            full = dict(a)
            full.update(dict(zip(free, combo)))
            if full[k_f_none] and full[k_f_eq]:
                continue  # infeasible: no field but field name equal
            vals.add(exp(full))
        if vals != {bool(v)}:
            bad.append({"row": a, "value": bool(v), "expected": sorted(vals)})
    what = "a step matches a node iff it is an instance of the class, the field constraint (if given) equals the node's field, and the index constraint (if given) equals its index"
    if bad:
        ck.violation(rule, f, f.node, what, evaluations=len(rows), construct=f"{f.qualname}: step predicate differs from the documented formula: {bad[0]}", rows=bad[:3])
    else:
        ck.holds(rule, f, f.node, what, evaluations=len(rows))


def r_shared(ck: Checker) -> None:
    pred = ck.repo.func(XP, "_match_node_element")
    a = pred.node.args.args
    r_step_predicate(ck, pred, a[0].arg, a[1].arg)
    for q in ("ASTXpath.findall", "_match_node_xpath"):
        f = ck.repo.func(XP, q)
        cs = [c for c in walk_body(f.node.body) if isinstance(c, ast.Call) and dotted(c.func) == "_match_node_element"]
        what = f"{q} decides every step with the shared predicate _match_node_element"
        other_tests = [n for n in walk_body(f.node.body) if isinstance(n, ast.Call) and dotted(n.func) == "isinstance" and "ast_class" in norm(n)]
        if cs and not other_tests:
            ck.holds("R-XP-SHARED", f, cs[0], what, call_sites=len(cs))
        else:
            ck.violation("R-XP-SHARED", f, f.node, what, construct=f"{q}: {len(cs)} calls of the shared predicate, {len(other_tests)} private class tests")


def record_args(ck: Checker, e: ast.expr) -> list[str] | None:
    """Positional view (node, parent, field, findex) of a traversal-record construction, keyword or positional."""
    if not (isinstance(e, ast.Call) and dotted(e.func) in ("_NodeTraversalInfo", "NodeTraversalInfo")):
        return None
    fields = [st.target.id for st in ck.repo.cls("pyoak.node", "NodeTraversalInfo").node.body if isinstance(st, ast.AnnAssign) and isinstance(st.target, ast.Name)]
    out: list[str | None] = [None] * len(fields)
    if len(e.args) > len(fields) or any(isinstance(x, ast.Starred) for x in e.args):
        return None
    for i, x in enumerate(e.args):
        out[i] = norm(x)
    for k in e.keywords:
        if k.arg not in fields or out[fields.index(k.arg)] is not None:
            return None
        out[fields.index(k.arg)] = norm(k.value)
    if out[-1] is None:
        out[-1] = "None"  # findex defaults to None
    return out if all(x is not None for x in out) else None  # type: ignore[return-value]


def r_root(ck: Checker) -> None:
    f = ck.repo.func(XP, "ASTXpath.findall")
    fn = f.node
    dummies = [st for st in walk_body(fn.body) if isinstance(st, ast.Assign) and isinstance(st.value, ast.Call) and dotted(st.value.func) == "_DUMMY_XPATH_ROOT"]
    inline = [c for c in walk_body(fn.body) if isinstance(c, ast.Call) and dotted(c.func) == "_DUMMY_XPATH_ROOT"]
    if not inline:
        raise Unsupported("findall does not use the synthetic root wrapper; root presentation cannot be compared", fn)
    what = "findall presents the root to the step predicate without field and index (like match): every record passes through the root sanitiser"
    if len(dummies) != 1 or not isinstance(dummies[0].targets[0], ast.Name):
        ck.violation("R-XP-ROOT", f, inline[0], what, construct="findall: the wrapper is not bound to a local, its child records cannot be recognised (wrapper field visible to the predicate)")
        return
    dv = dummies[0].targets[0].id
    model = findall_model(ck, f, dv)
    if model["root_bad"]:
        ck.violation("R-XP-ROOT", f, fn, what, construct=f"findall: {model['root_bad'][0]}")
    elif not model["n_pred"]:
        ck.incomplete("R-XP-ROOT", f, fn, "no predicate call in findall")
    else:
        ck.holds("R-XP-ROOT", f, fn, what, evaluations=model["n_pred"], sanitiser=model["sanitisers"] or "inlined")
    # match side: root info comes from Tree.get_parent_info
    g = ck.repo.func(XP, "_match_node_xpath")
    src = [st for st in walk_body(g.node.body) if isinstance(st, ast.Assign) and isinstance(st.value, ast.Call) and isinstance(st.value.func, ast.Attribute)
           and st.value.func.attr == "get_parent_info"]
    what = "match presents every node with the parent, field and index reported by Tree.get_parent_info (None, None, None for the root)"
    ok = False
    if len(src) == 1 and isinstance(src[0].targets[0], ast.Tuple) and len(src[0].targets[0].elts) == 3:
        p, fl, ix = (norm(x) for x in src[0].targets[0].elts)
        nodev = norm(src[0].value.args[0])
        cs = [c for c in walk_body(g.node.body) if isinstance(c, ast.Call) and dotted(c.func) == "_match_node_element"]
        if len(cs) == 1 and cs[0].args:
            arg0 = cs[0].args[0]
            if isinstance(arg0, ast.Name):
                binds = [st for st in walk_body(g.node.body) if isinstance(st, (ast.Assign, ast.AnnAssign))
                         and norm(st.targets[0] if isinstance(st, ast.Assign) else st.target) == arg0.id and st.value is not None]
                if len(binds) != 1:
                    raise Unsupported("_match_node_xpath: the record handed to the predicate is bound more than once", g.node)
                arg0 = binds[0].value
            ok = record_args(ck, arg0) == [nodev, p, fl, ix]
    elif not src:
        raise Unsupported("_match_node_xpath: no tuple unpacking of tree.get_parent_info(node)", g.node)
    (ck.holds if ok else ck.violation)("R-XP-ROOT", g, g.node, what, **({} if ok else {"construct": "_match_node_xpath: record handed to the predicate is not (node, *get_parent_info(node))"}))


def findall_model(ck: Checker, f: Func, dv: str) -> dict:
    """The per-work-item step of findall, decided path by path (resolved decision trees):
    which stream of candidate records is produced for `anywhere` / not, and which record reaches the step predicate.
    Returns {"anywhere_bad": [...], "root_bad": [...], "n_pred": int, "sanitisers": [...], "inner": For, "leaves": int}."""
    fn = f.node
    outer = [st for st in fn.body if isinstance(st, ast.For) and norm(st.iter) == "self._elements"]
    if len(outer) != 1:
        raise Unsupported("findall: loop over self._elements not found", fn)
    el = norm(outer[0].target)
    inner = [st for st in outer[0].body if isinstance(st, ast.For)]
    if len(inner) != 1 or not isinstance(inner[0].target, ast.Name):
        raise Unsupported("findall: loop over the work set not found", outer[0])
    wv = inner[0].target.id
    # verified sanitiser closures: record of the wrapper's child -> (node, None, None, None), everything else unchanged
    sanitisers = []
    for h in [st for st in fn.body if isinstance(st, ast.FunctionDef)]:
        p = h.args.args[0].arg if h.args.args else None
        if p is None:
            continue
        hl = decision_tree(strip_docstring(h.body))
        key = k_is(dv, f"{p}.parent")
        ok = bool(hl)
        for lf in hl:
            if set(lf.assign) != {key}:
                ok = False
                break
            if lf.assign[key] and (lf.value is None or record_args(ck, lf.value) != [f"{p}.node", "None", "None", "None"]):
                ok = False
            if not lf.assign[key] and (lf.val() or "") != p:
                ok = False
        if ok:
            sanitisers.append(h.name)
    key_any = f"{el}.anywhere"
    anywhere_bad: list[str] = []
    root_bad: list[str] = []
    n_pred = 0
    leaves = decision_tree(inner[0].body, resolve="calls")
    for lf in leaves:
        if set(lf.assign) - {key_any}:
            raise Unsupported(f"findall: the step decides on {sorted(set(lf.assign) - {key_any})}", inner[0])
        if key_any not in lf.assign:
            anywhere_bad.append("the step does not branch on `anywhere`")
            continue
        loops = [st for st in lf.stmts if isinstance(st, ast.For)]
        if len(loops) != 1:
            anywhere_bad.append(f"{len(loops)} candidate loops")
            continue
        lp = loops[0]
        it = lp.iter
        kids_call = f"{wv}.node.get_child_nodes_with_field()"
        kind = None
        cand_args: list[str] | None = None
        tname = lp.target.id if isinstance(lp.target, ast.Name) else None
        # the candidate stream: a base enumeration, optionally mapped element-wise (comprehension layers, innermost first)
        base: ast.expr = it
        layers: list[tuple[ast.expr, ast.expr]] = []  # (target, element expression), outermost first
        while isinstance(base, (ast.GeneratorExp, ast.ListComp)) and len(base.generators) == 1 and not base.generators[0].ifs:
            layers.append((base.generators[0].target, base.elt))
            base = base.generators[0].iter
        elt: ast.expr | None = None  # the element of the outermost layer, expressed over the base enumeration's target
        base_tgt: ast.expr | None = None
        if layers:
            from ..normalize import _Subst
            base_tgt, elt = layers[-1]
            ok_layers = True
            for tg_, el_ in reversed(layers[:-1]):
                if not isinstance(tg_, ast.Name):
                    ok_layers = False
                    break
                elt = _Subst({tg_.id: elt}).visit(copy.deepcopy(el_))
            if not ok_layers:
                elt = None
        sanitised = False
        inner_elt = elt
        while isinstance(inner_elt, ast.Call) and dotted(inner_elt.func) in sanitisers and len(inner_elt.args) == 1:
            inner_elt = inner_elt.args[0]
            sanitised = True
        if not layers:
            if full_traversal(it) == f"{wv}.node":
                kind = "subtree"
            elif norm(it) == kids_call and isinstance(lp.target, ast.Tuple) and len(lp.target.elts) == 3:
                kind = "children"
                c_, f_, i_ = (norm(x) for x in lp.target.elts)
                cand_args = [c_, f"{wv}.node", f_, i_]
        elif elt is not None and inner_elt is not None:
            if full_traversal(base) == f"{wv}.node" and isinstance(base_tgt, ast.Name) and norm(inner_elt) == base_tgt.id:
                kind = "subtree-sanitised" if sanitised else "subtree"
            elif norm(base) == kids_call and isinstance(base_tgt, ast.Tuple) and len(base_tgt.elts) == 3:
                c_, f_, i_ = (norm(x) for x in base_tgt.elts)
                if record_args(ck, inner_elt) == [c_, f"{wv}.node", f_, i_]:
                    kind = "children-sanitised" if sanitised else "children-records"
        if kind is None:
            if lf.assign[key_any]:
                anywhere_bad.append(f"'//' step iterates {norm(it)[:50]} instead of a full traversal of the work node")
            else:
                anywhere_bad.append(f"'/' step iterates {norm(it)[:50]} instead of the direct children")
            continue
        if lf.assign[key_any] and kind not in ("subtree", "subtree-sanitised"):
            anywhere_bad.append(f"'//' step iterates {norm(it)[:50]} instead of a full traversal of the work node")
        elif not lf.assign[key_any] and kind in ("subtree", "subtree-sanitised"):
            anywhere_bad.append(f"'/' step iterates {norm(it)[:50]} instead of the direct children")
        elif lf.assign[key_any]:
            ck.holds("R-FULLTRAV", f, lp, "the '//' branch of findall iterates a full traversal of the work node")
        # which record reaches the predicate
        for bl in decision_tree(lp.body, resolve="calls"):
            for k in bl.assign:
                if not k.startswith("_match_node_element("):
                    continue
                n_pred += 1
                call = ast.parse(k, mode="eval").body
                R = call.args[0]  # type: ignore[attr-defined]
                ok = False
                Rin = R
                if isinstance(R, ast.Call) and dotted(R.func) in sanitisers and len(R.args) == 1:
                    Rin = R.args[0]
                    ok = (tname is not None and norm(Rin) == tname) or (cand_args is not None and record_args(ck, Rin) == cand_args)
                elif kind in ("children-sanitised", "subtree-sanitised") and tname is not None and norm(R) == tname:
                    ok = True
                elif tname is not None:
                    kk = k_is(f"{tname}.parent", dv)
                    if bl.assign.get(kk) is True:
                        ok = record_args(ck, R) == [f"{tname}.node", "None", "None", "None"]
                    elif bl.assign.get(kk) is False:
                        ok = norm(R) == tname
                elif cand_args is not None:
                    kk = k_is(f"{wv}.node", dv)
                    if bl.assign.get(kk) is True:
                        ok = record_args(ck, R) == [cand_args[0], "None", "None", "None"]
                    elif bl.assign.get(kk) is False:
                        ok = record_args(ck, R) == cand_args
                if not ok:
                    root_bad.append(f"_match_node_element({norm(R)[:50]}, ...) receives a record that did not pass the root sanitiser")
    return {"anywhere_bad": anywhere_bad, "root_bad": root_bad, "n_pred": n_pred, "sanitisers": sanitisers, "inner": inner[0], "leaves": len(leaves)}


def r_anywhere(ck: Checker) -> None:
    f = ck.repo.func(XP, "ASTXpath.findall")
    fn = f.node
    dummies = [st for st in walk_body(fn.body) if isinstance(st, ast.Assign) and isinstance(st.value, ast.Call) and dotted(st.value.func) == "_DUMMY_XPATH_ROOT"
               and isinstance(st.targets[0], ast.Name)]
    if len(dummies) != 1:
        raise Unsupported("findall: the synthetic root wrapper is not bound to one local", fn)
    model = findall_model(ck, f, dummies[0].targets[0].id)
    inner = [model["inner"]]
    bad = model["anywhere_bad"]
    leaves = range(model["leaves"])
    what = "findall: a '//' step searches the whole subtree of each work node, a '/' step only its direct children"
    if bad:
        ck.violation("R-XP-ANYWHERE", f, inner[0], what, construct=f"findall: {bad[0]}")
    else:
        ck.holds("R-XP-ANYWHERE", f, inner[0], what, evaluations=len(leaves))
    # result: nodes of the last work set, each once (ordered-set insertion guarded by `not in`)
    ys = [n for n in walk_body(fn.body) if isinstance(n, (ast.Yield, ast.YieldFrom))]
    what = "findall yields the nodes of the final work set, each record once"
    ok = len(ys) == 1 and "new_work" in norm(ys[0]) or (len(ys) == 1 and "work" in norm(ys[0]))
    (ck.holds if ok else ck.violation)("R-XP-ANYWHERE", f, fn, what, **({} if ok else {"construct": "findall: result is not the final work set"}))

    g = ck.repo.func(XP, "_match_node_xpath")
    gp = [a.arg for a in g.node.args.args]
    treev, nodev, elsv = gp
    body = strip_docstring(g.node.body)

    k_loop = "LOOP:some_ancestor_matches_tail"

    def anc_iter(it: ast.expr) -> bool:
        return isinstance(it, ast.Call) and isinstance(it.func, ast.Attribute) and it.func.attr == "get_ancestors" \
            and norm(it.func.value) == treev and [norm(x) for x in it.args] == [nodev] and not it.keywords

    def hook(lp: ast.stmt, assign: dict) -> object:
        if not (isinstance(lp, ast.For) and anc_iter(lp.iter)):
            raise Unsupported("loop in _match_node_xpath is not over tree.get_ancestors(node)", lp)
        anc = norm(lp.target)
        # body: if _match_node_xpath(tree, ancestor, tail): return True
        if not (len(lp.body) == 1 and isinstance(lp.body[0], ast.If) and not lp.body[0].orelse and len(lp.body[0].body) == 1
                and isinstance(lp.body[0].body[0], ast.Return) and norm(lp.body[0].body[0].value) == "True"
                and norm(lp.body[0].test) == f"_match_node_xpath({treev}, {anc}, {elsv}[1:])"):
            raise Unsupported("ancestor loop body is not `if _match_node_xpath(tree, ancestor, <tail>): return True`", lp)
        if k_loop not in assign:
            raise NeedAtom(k_loop, lp)
        if assign[k_loop]:
            return leave("return", lp.body[0].body[0].value)
        return None

    def call_hook(c: ast.Call, assign: dict) -> object:
        """any(_match_node_xpath(tree, a, tail) for a in tree.get_ancestors(node)): the same abstraction as the loop."""
        if dotted(c.func) != "any" or len(c.args) != 1 or not isinstance(c.args[0], (ast.GeneratorExp, ast.ListComp)):
            return NotImplemented
        g_ = c.args[0]
        if len(g_.generators) != 1 or g_.generators[0].ifs or not anc_iter(g_.generators[0].iter):
            return NotImplemented
        if norm(g_.elt) != f"_match_node_xpath({treev}, {norm(g_.generators[0].target)}, {elsv}[1:])":
            raise Unsupported("any(...) over the ancestors does not test `_match_node_xpath(tree, ancestor, <tail>)`", c)
        if k_loop not in assign:
            raise NeedAtom(k_loop, c)
        return assign[k_loop]

    tail_txt = f"{elsv}[1:]"

    def dom(k: str) -> tuple:
        if k == f"len({tail_txt})":
            return (0, 1, 2)
        if k == f"len({elsv})":
            return (1, 2, 3)
        return (True, False)

    rows = bool_function(body, loop_hook=hook, call_hook=call_hook, max_atoms=10, alias_filter=lambda st: True, resolve=True,
                         sized=(tail_txt,), domain=dom)
    # atoms
    bad = []
    k_any = f"{elsv}[0].anywhere"
    # the parent of the node as reported by the tree (first element of get_parent_info)
    pinfo = [st for st in body if isinstance(st, ast.Assign) and isinstance(st.value, ast.Call) and isinstance(st.value.func, ast.Attribute)
             and st.value.func.attr == "get_parent_info" and isinstance(st.targets[0], ast.Tuple)]
    if not pinfo:
        raise Unsupported("_match_node_xpath: the parent is not taken from a tuple unpacking of tree.get_parent_info(node)", g.node)
    pvar = norm(pinfo[0].targets[0].elts[0])
    k_root = k_none(pvar)
    for a, v, lf in rows:
        keys = list(a)
        step = [k for k in keys if k.startswith("_match_node_element(")]
        tail_empty = [k for k in keys if k in (f"len({tail_txt})", f"len({elsv})")]
        direct = [k for k in keys if k == f"_match_node_xpath({treev}, {pvar}, {tail_txt})"]
        if not step:
            bad.append("the current node is not tested against the current step")
            continue
        if not a[step[0]]:
            if v is not False:
                bad.append("step mismatch does not yield False")
            continue
        te = None
        for k in tail_empty:
            te = (a[k] == 0) if k == f"len({tail_txt})" else (a[k] <= 1)
        unknown = [k for k in keys if k not in step and k not in tail_empty and k not in direct and k not in (k_any, k_root, k_loop)]
        if pvar in unknown:
            bad.append(f"the root is recognised by the truthiness of `{pvar}` (a node class may define __len__ / __bool__): `is None` required")
            continue
        if unknown:
            raise Unsupported(f"_match_node_xpath decides on {unknown}", g.node)
        if te is None:
            bad.append("the end of the path is not detected")
            continue
        if te:
            exp = a.get(k_any) or a.get(k_root)
            if k_any not in a and k_root not in a:
                bad.append("last step: neither `anywhere` nor `is root` consulted")
            elif bool(v) != bool(exp):
                bad.append(f"last step: returns {v} for anywhere={a.get(k_any)} root={a.get(k_root)}")
            continue
        if a.get(k_root):
            if v is not False:
                bad.append("steps remain but the node has no parent: must be False")
            continue
        if k_any not in a:
            bad.append("remaining steps: `anywhere` not consulted")
            continue
        if a[k_any]:
            if k_loop not in a:
                bad.append("'//' step does not try the ancestors")
            elif bool(v) != bool(a[k_loop]):
                bad.append(f"'//' step: returns {v} although some-ancestor-matches={a[k_loop]}")
        else:
            if not direct:
                bad.append("'/' step does not recurse into the direct parent")
            elif bool(v) != bool(a[direct[0]]):
                bad.append("'/' step result differs from the parent's result")
    what = ("match: step mismatch -> False; last step -> anywhere or node is the root; otherwise '//' tries every proper ancestor "
            "(success only), '/' recurses into the direct parent")
    if bad:
        ck.violation("R-XP-ANYWHERE", g, g.node, what, evaluations=len(rows), construct=f"_match_node_xpath: {bad[0]}")
    else:
        ck.holds("R-XP-ANYWHERE", g, g.node, what, evaluations=len(rows))



class _FactSem(Semantics):
    """Facts (canonical comparison key, polarity) established by branch / loop conditions, killed by re-assignment."""

    def __init__(self) -> None:
        self.at: dict[int, list[frozenset]] = {}

    def may_raise_expr(self, e):
        return False

    def may_raise_stmt(self, st):
        return False

    def simple(self, state, st):
        for n in walk_local(st):
            self.at.setdefault(id(n), []).append(state)
        names = {n.id for n in walk_local(st) if isinstance(n, ast.Name) and isinstance(n.ctx, ast.Store)}
        if names:
            state = frozenset((k, p) for k, p in state if not any(nm in k.replace("(", ",").replace(")", ",").split(",") for nm in names))
        return (state,)

    def bind_loop(self, state, st):
        names = {n.id for n in ast.walk(st.target) if isinstance(n, ast.Name)}
        return (frozenset((k, p) for k, p in state if not any(nm in k.replace("(", ",").replace(")", ",").split(",") for nm in names)),)

    def cond(self, state, test):
        from ..finite import canon_cmp

        def facts(pol: bool) -> frozenset:
            out = set(state)
            t, p = test, pol
            while isinstance(t, ast.UnaryOp) and isinstance(t.op, ast.Not):
                t, p = t.operand, not p
            if isinstance(t, ast.Compare):
                cc = canon_cmp(t)
                if cc is not None:
                    out.add((cc[0], cc[1] == p))
            return frozenset(out)

        return (facts(True),), (facts(False),)


def r_xp_elements(ck: Checker, modname: str = XP, rule: str = "R-XP-ELEMENTS", min_count: int = 3) -> None:
    """Bookkeeping of XPathTransformer.xpath: every compiled element has a class, and turning an element into an
    'anywhere' element keeps its class, field and index."""
    c = ck.repo.cls(modname, "XPathTransformer")
    if not ck.repo.has_func(modname, "XPathTransformer.xpath"):
        raise Unsupported("XPathTransformer.xpath not found")
    f = ck.repo.func(modname, "XPathTransformer.xpath")
    fn = f.node
    sem = _FactSem()
    Interp(sem, max_rounds=8).block(fn.body, {frozenset()})
    n = 0
    n_mark = n_build = 0
    # X._replace(anywhere=True): marks an element as 'anywhere', every other component kept by construction
    for call in [x for x in walk_body(fn.body) if isinstance(x, ast.Call) and isinstance(x.func, ast.Attribute) and x.func.attr == "_replace"]:
        kws = {k.arg: norm(k.value) for k in call.keywords}
        what = "turning the last element into an 'anywhere' element keeps its class, field and index"
        if call.args or set(kws) - {"anywhere"}:
            ck.violation(rule, f, call, what, construct=f"XPathTransformer.xpath rebuilds an element as {norm(call)[:90]}")
        elif kws.get("anywhere") == "True":
            n += 1
            n_mark += 1
            ck.holds(rule, f, call, what, element=norm(call)[:80])
    for call in [x for x in walk_body(fn.body) if isinstance(x, ast.Call) and dotted(x.func) == "ASTXpathElement"]:
        n += 1
        args = {k.arg: k.value for k in call.keywords}
        for name, a in zip(("ast_class", "parent_field", "parent_index", "anywhere"), call.args):
            args[name] = a
        anyw = args.get("anywhere")
        if anyw is not None and isinstance(anyw, ast.Constant) and anyw.value is True:
            n_mark += 1
            what = "turning the last element into an 'anywhere' element keeps its class, field and index"
            got = [norm(args.get(k)) if args.get(k) is not None else None for k in ("ast_class", "parent_field", "parent_index")]
            base = got[0].rsplit(".", 1)[0] if got[0] and got[0].endswith(".ast_class") else None
            if base and got == [f"{base}.ast_class", f"{base}.parent_field", f"{base}.parent_index"]:
                ck.holds(rule, f, call, what, element=norm(call)[:80])
            else:
                ck.violation(rule, f, call, what, construct=f"XPathTransformer.xpath rebuilds an element as {norm(call)[:90]}")
        else:
            n_build += 1
            # a flag handed to the compiled step (anywhere=<local>) is decided per step: it is (re)set unconditionally in the iteration
            # that compiles the step, never carried over from an earlier one
            if isinstance(anyw, ast.Name):
                loops_ = [lp_ for lp_ in ast.walk(fn) if isinstance(lp_, ast.For) and any(x is call for x in ast.walk(lp_))]
                if loops_:
                    outer_ = max(loops_, key=lambda lp_: sum(1 for _ in ast.walk(lp_)))
                    first_ = next((st_ for st_ in outer_.body if any(isinstance(x, ast.Name) and x.id == anyw.id for x in ast.walk(st_))), None)
                    reset_ = isinstance(first_, ast.Assign) and len(first_.targets) == 1 and isinstance(first_.targets[0], ast.Name) and first_.targets[0].id == anyw.id \
                        and not any(isinstance(x, ast.Name) and x.id == anyw.id for x in ast.walk(first_.value))
                    if not reset_:
                        # the other sound scheme: False before the loop, and set back to False on every path after a step was compiled
                        pre_ok = any(isinstance(st_, ast.Assign) and len(st_.targets) == 1 and norm(st_.targets[0]) == anyw.id and is_const(st_.value, False)
                                     for st_ in fn.body[:fn.body.index(outer_)]) if outer_ in fn.body else False
                        after_ok = True
                        for lf_ in decision_tree(outer_.body, max_atoms=10):
                            idxs = [k_ for k_, st_ in enumerate(lf_.stmts) if any(x is call for x in ast.walk(st_))]
                            if not idxs:
                                continue
                            tail_ = lf_.stmts[idxs[-1] + 1:]
                            if not any(isinstance(st_, ast.Assign) and len(st_.targets) == 1 and norm(st_.targets[0]) == anyw.id and is_const(st_.value, False) for st_ in tail_):
                                after_ok = False
                        reset_ = pre_ok and after_ok
                    whatf = "the `anywhere` flag of a compiled step is decided within the iteration that compiles it"
                    if reset_:
                        ck.holds(rule, f, call, whatf)
                    else:
                        ck.violation(rule, f, call, whatf, construct=f"XPathTransformer.xpath: `{anyw.id}` is not reset at the start of each step (a '//' leaks onto the steps to its left)")
            what = "every compiled step has a class (the empty elements of '//' are folded until a real step is reached) and carries the field / index of that same step"
            cls_expr = args.get("ast_class")
            states = sem.at.get(id(call), [])
            ok_cls = isinstance(cls_expr, ast.Name) and states and all((k_none(cls_expr.id), False) in st for st in states)
            trio = [norm(args.get(k)) if args.get(k) is not None else None for k in ("parent_field", "parent_index", "ast_class")]
            # the three names come from one tuple unpack
            unpacks = [st for st in walk_body(fn.body) if isinstance(st, ast.Assign) and isinstance(st.targets[0], ast.Tuple)
                       and [norm(x) for x in st.targets[0].elts] == trio]
            unpacks += [st for st in walk_body(fn.body) if isinstance(st, ast.For) and isinstance(st.target, ast.Tuple)
                        and [norm(x) for x in st.target.elts] == trio]
            if ok_cls and unpacks:
                ck.holds(rule, f, call, what, evaluations=len(states))
            elif not ok_cls:
                ck.violation(rule, f, call, what, evaluations=len(states),
                             construct="XPathTransformer.xpath: an element may be compiled with ast_class None (the fold over empty '//' elements does not run until a class is found)")
            else:
                ck.violation(rule, f, call, what, construct=f"XPathTransformer.xpath: element fields {trio} do not come from one parsed step")
    if n_build < 1 or (min_count > 1 and n_mark < 1):
        ck.incomplete(rule, None, None, f"ASTXpathElement constructions in the transformer: {n_build} compiled steps, {n_mark} anywhere-markings (at least one of each expected)")


def r_step_part_kinds(ck: Checker, modname: str = XP, rule: str = "R-XP-ELEMENTS") -> None:
    """`element` tells the parts of a step apart by their run-time type (a class -> the class, an int -> the index, anything else -> the
    field name).  So the callback of the index part must return an int on every path and the callback of the field part a str: a `None`
    for "no index" would be taken for a field name and overwrite the `@field` parsed before it (positive pattern: a None / non-int
    return in index_spec)."""
    c = ck.repo.cls(modname, "XPathTransformer")
    el = next((st for st in c.node.body if isinstance(st, ast.FunctionDef) and st.name == "element"), None)
    ix = next((st for st in c.node.body if isinstance(st, ast.FunctionDef) and st.name == "index_spec"), None)
    if el is None or ix is None:
        raise Unsupported("XPathTransformer.element / index_spec not found")
    by_type = any(isinstance(x, ast.Call) and dotted(x.func) == "isinstance" and len(x.args) == 2 and norm(x.args[1]) == "int" for x in ast.walk(el)) or \
        any(isinstance(x, ast.MatchClass) and norm(x.cls) == "int" for x in ast.walk(el))
    if not by_type:
        raise Unsupported("XPathTransformer.element does not classify the parts of a step by isinstance(..., int)", el)

    def arms(e: ast.expr) -> list[ast.expr]:
        if isinstance(e, ast.IfExp):
            return arms(e.body) + arms(e.orelse)
        if isinstance(e, ast.BoolOp):
            return [a for v in e.values for a in arms(v)]
        return [e]
    what = "XPathTransformer.index_spec returns an int on every path (element() recognises the index part of a step by its type)"
    consts_ = {st.targets[0].id: st.value for st in ck.repo.mod(modname).tree.body if isinstance(st, ast.Assign) and len(st.targets) == 1 and isinstance(st.targets[0], ast.Name)}
    consts_.update({st.target.id: st.value for st in ck.repo.mod(modname).tree.body if isinstance(st, ast.AnnAssign) and isinstance(st.target, ast.Name) and st.value is not None})
    _arms0 = arms

    def arms(e: ast.expr) -> list[ast.expr]:  # type: ignore[no-redef]
        return [consts_.get(a.id, a) if isinstance(a, ast.Name) else a for a in _arms0(e)]
    rets = [r for r in ast.walk(ix) if isinstance(r, ast.Return)]
    bad = None
    unknown = None
    for r in rets:
        for a in (arms(r.value) if r.value is not None else [ast.Constant(value=None)]):
            if isinstance(a, ast.Constant) and a.value is None:
                bad = r
            elif isinstance(a, ast.Constant) and isinstance(a.value, int) and not isinstance(a.value, bool):
                continue
            elif isinstance(a, ast.UnaryOp) and isinstance(a.operand, ast.Constant) and isinstance(a.operand.value, int):
                continue
            elif isinstance(a, ast.Call) and dotted(a.func) == "int":
                continue
            else:
                unknown = a
    falls_off = not isinstance(ix.body[-1], (ast.Return, ast.Raise, ast.If, ast.Match, ast.Try))
    if bad is not None or falls_off:
        ck.violation(rule, (c.mod.rel, "XPathTransformer.index_spec"), bad or ix, what, positive=True,
                     construct="XPathTransformer.index_spec returns None on some path — element() takes a part that is neither a class nor an int for the field name, "
                     "so `@f[]C` loses its `@f`")
    elif unknown is not None:
        raise Unsupported(f"index_spec returns {norm(unknown)[:40]}", ix)
    else:
        ck.holds(rule, (c.mod.rel, "XPathTransformer.index_spec"), ix, what, returns=len(rets))


def r_xp_cache_key(ck: Checker, modname: str = XP, rule: str = "R-XP-SHARED") -> None:
    """Compiled xpaths are interned: the table must be keyed by the text itself.  Positive pattern: a key computed from the text (stripped,
    whitespace-collapsed, lower-cased ...) — two different texts share one object, and compiling the second re-initialises the object
    someone else still holds."""
    if not ck.repo.has_func(modname, "ASTXpath.__new__"):
        ck.holds(rule, (ck.repo.mod(modname).rel, "ASTXpath"), None, "ASTXpath objects are not interned (no __new__)")
        return
    f = ck.repo.func(modname, "ASTXpath.__new__")
    fn = f.raw or f.node
    tp = fn.args.args[1].arg if len(fn.args.args) > 1 else None
    n = 0
    for x in ast.walk(fn):
        key = None
        if isinstance(x, ast.Subscript) and "CACHE" in norm(x.value).upper():
            key = x.slice
        elif isinstance(x, ast.Compare) and len(x.ops) == 1 and isinstance(x.ops[0], (ast.In, ast.NotIn)) and "CACHE" in norm(x.comparators[0]).upper():
            key = x.left
        elif isinstance(x, ast.Call) and isinstance(x.func, ast.Attribute) and x.func.attr in ("get", "setdefault", "pop") and "CACHE" in norm(x.func.value).upper() and x.args:
            key = x.args[0]
        if key is None:
            continue
        n += 1
        what = "the table of interned xpaths is keyed by the xpath text itself"
        if isinstance(key, ast.Name) and key.id != tp:
            defs = [st.value for st in ast.walk(fn) if isinstance(st, ast.Assign) and len(st.targets) == 1 and isinstance(st.targets[0], ast.Name) and st.targets[0].id == key.id]
            if len(defs) == 1 and isinstance(defs[0], ast.Name) and defs[0].id == tp:
                key = defs[0]
            elif len(defs) == 1 and isinstance(defs[0], ast.Call) and dotted(defs[0].func) in ("str", "cast", "t.cast", "typing.cast") and defs[0].args and norm(defs[0].args[-1]) == tp:
                key = defs[0].args[-1]
        if isinstance(key, ast.Name) and key.id == tp:
            ck.holds(rule, f, x, what)
        else:
            ck.violation(rule, f, x, what, positive=True,
                         construct=f"ASTXpath.__new__: the cache is keyed by {norm(key)[:40]}, not by the text `{tp}` — different texts with the same key share (and re-initialise) one object")
            return
    if n == 0:
        raise Unsupported("ASTXpath.__new__: no cache access found", fn)


def r_xp_once(ck: Checker) -> None:
    f = ck.repo.func(XP, "ASTXpath.findall")
    fn = f.node
    what = "findall yields each node once: the work sets are insertion-ordered dicts keyed by the traversal record"
    outer = [st for st in fn.body if isinstance(st, ast.For) and norm(st.iter) == "self._elements"]
    bad = None
    if len(outer) != 1:
        raise Unsupported("findall: loop over self._elements not found", fn)
    inits = [st for st in outer[0].body if isinstance(st, (ast.Assign, ast.AnnAssign))]
    nw = None
    for st in inits:
        v = st.value
        if isinstance(v, ast.Dict) and not v.keys or (isinstance(v, ast.Call) and dotted(v.func) == "dict" and not v.args):
            nw = norm(st.target if isinstance(st, ast.AnnAssign) else st.targets[0])
    if nw is None:
        bad = "the per-step work set is not a fresh dict (duplicates are not merged)"
    else:
        stores = [st for st in walk_body(outer[0].body) if isinstance(st, ast.Assign) and isinstance(st.targets[0], ast.Subscript) and norm(st.targets[0].value) == nw]
        others = [c for c in walk_body(outer[0].body) if isinstance(c, ast.Call) and isinstance(c.func, ast.Attribute) and norm(c.func.value) == nw
                  and c.func.attr in ("append", "extend", "add", "update", "setdefault")]
        if not stores or others:
            bad = f"records are added to the work set with {[norm(o)[:30] for o in others] or 'nothing'}"
        ys = [n for n in walk_body(fn.body) if isinstance(n, (ast.Yield, ast.YieldFrom))]
        if len(ys) != 1 or nw not in norm(ys[0]):
            bad = bad or "the result is not taken from the final work set"
    (ck.violation if bad else ck.holds)("R-XP-ONCE", f, fn, what, **({"construct": f"findall: {bad}"} if bad else {}))


def _xpath_object_ok(lf, xp: str, recv: str) -> str | None:
    """The receiver of .findall(self) on this path is the compiled form of the argument: ASTXpath(arg) for text, the argument itself otherwise."""
    k = f"isinstance({xp}, str)"
    if k not in lf.assign:
        return "the argument is used without testing whether it is text"
    rebound = any(isinstance(st, ast.Assign) and norm(st.targets[0]) == xp and norm(st.value) == f"ASTXpath({xp})" for st in lf.stmts)
    if lf.assign[k]:
        if not (recv == f"ASTXpath({xp})" or (recv == xp and rebound)):
            return f"text argument: searches with {recv}"
    elif not (recv == xp and not rebound):
        return f"compiled argument: searches with {recv}"
    return None


def _stopiteration_guard(fn: ast.FunctionDef) -> bool:
    """The next(...) call sits in a try whose StopIteration handler makes the function return None: the handler returns None itself, or it
    binds None to the local the try body binds the result to and that local is what is returned right after the try statement."""
    def after(block: list[ast.stmt], t: ast.Try) -> list[ast.stmt] | None:
        for i, st in enumerate(block):
            if st is t:
                return block[i + 1:]
            for sub in ([st.body, st.orelse] if isinstance(st, ast.If) else []):
                r = after(sub, t)
                if r is not None:
                    return r + block[i + 1:]
        return None

    for st in ast.walk(fn):
        if not isinstance(st, ast.Try):
            continue
        nexts = [c for c in walk_body(st.body) if isinstance(c, ast.Call) and dotted(c.func) == "next"]
        if not nexts or st.finalbody:
            continue
        bound = [x.targets[0].id for x in st.body if isinstance(x, ast.Assign) and isinstance(x.targets[0], ast.Name) and isinstance(x.value, ast.Call) and dotted(x.value.func) == "next"]
        for h in st.handlers:
            if not (h.type is not None and dotted(h.type) in ("StopIteration", "Exception")):
                continue
            if len(h.body) == 1 and isinstance(h.body[0], ast.Return) and (h.body[0].value is None or is_none(h.body[0].value)):
                return True
            if len(h.body) == 1 and isinstance(h.body[0], ast.Assign) and isinstance(h.body[0].targets[0], ast.Name) and is_none(h.body[0].value) \
                    and h.body[0].targets[0].id in bound:
                rest = after(fn.body, st)
                if rest and isinstance(rest[0], ast.Return) and rest[0].value is not None and norm(rest[0].value) == h.body[0].targets[0].id and not st.orelse:
                    return True
    return False


def r_find(ck: Checker) -> None:
    f = ck.repo.func(NODE, "ASTNode.find")
    fn = f.node
    xp = fn.args.args[1].arg
    what = "find returns the first node findall yields, or None"
    # a positive pattern: find walks the tree itself and asks match() node by node: the first match in traversal order is not, in general,
    # the first node findall() yields (findall works step by step from the root, '//A/B' reaches a shallow B before a deep one)
    own_walk = [lp for lp in walk_body(fn.body) if isinstance(lp, ast.For) and full_traversal(lp.iter) == "self"
                and any(isinstance(c, ast.Call) and isinstance(c.func, ast.Attribute) and c.func.attr == "match" for c in walk_body(lp.body))
                and any(isinstance(r, ast.Return) for r in walk_body(lp.body))]
    if own_walk and not any(isinstance(c, ast.Call) and isinstance(c.func, ast.Attribute) and c.func.attr == "findall" for c in walk_body(fn.body)):
        ck.violation("R-XP-FIND", f, own_walk[0], what, positive=True, construct="find: returns the first node of its own traversal that match() accepts instead of the first node findall() yields "
                     "(the two orders differ, e.g. for '//A/B' with an A nested in an earlier A)")
        return
    leaves = decision_tree(strip_docstring([st for st in fn.body if not isinstance(st, (ast.Import, ast.ImportFrom))]), resolve="calls", try_as_body=True)
    bad = None
    for lf in leaves:
        v = lf.value
        if lf.outcome == "return" and v is not None and ".findall(" in norm(v) and not (isinstance(v, ast.Call) and dotted(v.func) == "next"):
            bad = f"returns {norm(v)[:60]} (not the first element findall yields)"
            continue
        if lf.outcome != "return" or not (isinstance(v, ast.Call) and dotted(v.func) == "next" and v.args):
            raise Unsupported(f"find: a path does not return next(...): {lf.outcome} {lf.val()}", fn)
        src = v.args[0]
        while isinstance(src, ast.Call) and dotted(src.func) == "iter" and len(src.args) == 1:
            src = src.args[0]
        if not (isinstance(src, ast.Call) and isinstance(src.func, ast.Attribute) and src.func.attr == "findall" and [norm(x) for x in src.args] == ["self"]):
            if isinstance(src, ast.Call) and isinstance(src.func, ast.Attribute) and norm(src.func.value) == "self" and src.func.attr == "findall" \
                    and [norm(x) for x in src.args] == [xp]:
                continue_ok = len(v.args) == 2 and is_none(v.args[1])
                if not continue_ok and not _stopiteration_guard(fn):
                    bad = "no match: StopIteration is not turned into None"
                continue
            bad = f"takes the first element of {norm(src)[:60]}"
            continue
        bad = bad or _xpath_object_ok(lf, xp, norm(src.func.value))
        if len(v.args) == 2:
            if not is_none(v.args[1]):
                bad = bad or f"no match: returns {norm(v.args[1])}"
        elif not _stopiteration_guard(fn):
            bad = bad or "no match: StopIteration is not turned into None"
    (ck.holds if not bad else ck.violation)("R-XP-FIND", f, fn, what, **({"evaluations": len(leaves)} if not bad else {"construct": f"find: {bad}"}))
    g = ck.repo.func(NODE, "ASTNode.findall")
    gx = g.node.args.args[1].arg
    what = "ASTNode.findall delegates to ASTXpath.findall(self)"
    leaves = decision_tree(strip_docstring([st for st in g.node.body if not isinstance(st, (ast.Import, ast.ImportFrom))]), resolve="calls")
    bad = None
    for lf in leaves:
        ys = [n for st in lf.stmts for n in ast.walk(st) if isinstance(n, (ast.Yield, ast.YieldFrom))]
        if len(ys) != 1 or not isinstance(ys[0], ast.YieldFrom):
            raise Unsupported("findall: a path does not consist of one `yield from`", g.node)
        src = ys[0].value
        if not (isinstance(src, ast.Call) and isinstance(src.func, ast.Attribute) and src.func.attr == "findall" and [norm(x) for x in src.args] == ["self"]):
            bad = f"yields from {norm(src)[:60]}"
            continue
        bad = bad or _xpath_object_ok(lf, gx, norm(src.func.value))
    (ck.holds if not bad else ck.violation)("R-XP-FIND", g, g.node, what, **({"evaluations": len(leaves)} if not bad else {"construct": f"findall: {bad}"}))
    # relative paths
    c = ck.repo.func(XP, "ASTXpath.__init__")
    what = "a path that does not start with '/' is compiled as '//' + path"
    ok = any(isinstance(st, ast.If) and norm(st.test) == "not xpath.startswith('/')" and len(st.body) == 1 and norm(st.body[0]) == "xpath = '//' + xpath"
             for st in c.node.body)
    if not ok:
        # the same choice as a conditional expression: `p = xpath if xpath.startswith('/') else '//' + xpath` (or with the test negated),
        # and the parser is given `p`
        tp_ = c.node.args.args[1].arg if len(c.node.args.args) > 1 else "xpath"
        pre = (f"'//' + {tp_}", f"f'//{{{tp_}}}'", f"'//{{}}'.format({tp_})", f"''.join(('//', {tp_}))")
        for st in ast.walk(c.raw or c.node):
            if isinstance(st, ast.Assign) and len(st.targets) == 1 and isinstance(st.targets[0], ast.Name) and isinstance(st.value, ast.IfExp):
                t_, b_, o_ = norm(st.value.test), norm(st.value.body), norm(st.value.orelse)
                good = (t_ == f"{tp_}.startswith('/')" and b_ == tp_ and o_ in pre) or (t_ == f"not {tp_}.startswith('/')" and o_ == tp_ and b_ in pre)
                parsed = any(isinstance(x, ast.Call) and isinstance(x.func, ast.Attribute) and x.func.attr == "parse" and x.args and norm(x.args[0]) == st.targets[0].id
                             for x in ast.walk(c.raw or c.node)) or any(isinstance(x, ast.Call) and x.args and norm(x.args[0]) == st.targets[0].id and "parse" in (dotted(x.func) or "")
                                                                      for x in ast.walk(c.raw or c.node))
                if good and parsed:
                    ok = True
    if ok:
        ck.holds("R-XP-FIND", c, c.node, what)
    elif not any(isinstance(x, ast.Call) and isinstance(x.func, ast.Attribute) and x.func.attr == "startswith" for x in ast.walk(c.node)) \
            and not any(isinstance(x, ast.Constant) and x.value == "//" for x in ast.walk(c.node)):
        ck.violation("R-XP-FIND", c, c.node, what, construct="ASTXpath.__init__: a relative path is not prefixed with '//' at all")
    elif any(isinstance(x, ast.BinOp) and isinstance(x.op, ast.Add) and isinstance(x.left, ast.Constant) and x.left.value == "/" for x in ast.walk(c.node)):
        ck.violation("R-XP-FIND", c, c.node, what, construct="ASTXpath.__init__: a relative path is prefixed with '/' (children of the root only) instead of '//'")
    else:
        raise Unsupported("ASTXpath.__init__: relative path normalisation not recognised", c.node)


def r_all_candidates(ck: Checker, rule: str = "R-XP-FIND") -> None:
    """Every candidate of a step is tested: several children of one node can satisfy the same step (the same index exists in every
    sequence field, the same class under several fields).  Positive pattern: a `break` / `return` whose nearest enclosing loop in
    findall runs over the candidates of a step (a dfs / bfs walk or the children of a work item)."""
    f = ck.repo.func(XP, "ASTXpath.findall")
    fn = f.raw or f.node
    CAND = ("dfs", "bfs", "get_child_nodes_with_field", "get_child_nodes", "iter_child_fields", "get_children")
    bad = None
    n = 0

    def rec(node: ast.AST, loop: ast.AST | None) -> None:
        nonlocal bad, n
        for ch in ast.iter_child_nodes(node):
            if isinstance(ch, (ast.FunctionDef, ast.Lambda, ast.AsyncFunctionDef)):
                continue
            if isinstance(ch, (ast.For, ast.While)):
                cand = isinstance(ch, ast.For) and any(isinstance(c, ast.Call) and isinstance(c.func, ast.Attribute) and c.func.attr in CAND for c in ast.walk(ch.iter))
                n += 1 if cand else 0
                for b in ch.body:
                    rec(ast.Module(body=[b], type_ignores=[]), ch if cand else None)
                for b in ch.orelse:
                    rec(ast.Module(body=[b], type_ignores=[]), loop)
                continue
            if isinstance(ch, (ast.Break, ast.Return)) and loop is not None:
                bad = ch
            rec(ch, loop)
    rec(fn, None)
    what = "ASTXpath.findall tests every candidate of a step (no early exit from a loop over candidates)"
    if bad is not None:
        ck.violation(rule, f, bad, what, positive=True, construct=f"ASTXpath.findall: `{norm(bad)[:30]}` leaves a loop over the candidates of a step — the candidates after the first hit are never tested")
    else:  # (a positive pattern: where findall has no statement loop over candidates there is nothing to leave early)
        ck.holds(rule, f, f.node, what, loops=n)


def r_empty_step(ck: Checker, modname: str = XP) -> None:
    """The transformer marks the empty step between two slashes (`//`) by (None, None, None).  That marker stands for "the element rule
    had no children"; an element that has children which constrain nothing (`[]`) is still a step of exactly one level."""
    f = ck.repo.func(modname, "XPathTransformer.element")
    ap = f.node.args.args[1].arg
    what = "XPathTransformer.element returns the empty-step marker (None, None, None) exactly when the element has no children"
    leaves = decision_tree(strip_docstring(f.node.body), sized=(ap,), domain=lambda k: (0, 1, 2) if k.startswith("len(") else (True, False), max_atoms=12)
    marker = [lf for lf in leaves if lf.outcome == "return" and isinstance(lf.value, ast.Tuple) and len(lf.value.elts) == 3 and all(is_none(x) for x in lf.value.elts)]
    if not marker:
        raise Unsupported("XPathTransformer.element: no path returns the literal empty-step marker", f.node)
    bad = [lf for lf in marker if lf.assign.get(f"len({ap})") != 0]
    if not bad:
        ck.holds("R-XP-ELEMENTS", f, f.node, what, evaluations=len(leaves))
        return
    on_values = [k for k in bad[0].assign if k.startswith("is(None,")]
    if on_values:
        ck.violation("R-XP-ELEMENTS", f, f.node, what, evaluations=len(leaves),
                     positive=True, construct=f"element: the marker is returned when {', '.join(on_values)[:80]} (what the children happened to contain), not when there are no children: "
                     "a step of empty brackets `/[]/` is taken for `//`")
    else:
        raise Unsupported(f"XPathTransformer.element: the marker is returned on the path {bad[0].assign}", f.node)


def r_xp_compile_each(ck: Checker, rule: str = "R-XP-FIND") -> None:
    """ASTXpath instances are cached per text (__new__), __init__ runs again on every construction: it must compile again,
    otherwise the classes named in the text stay resolved as they were when the text was first seen."""
    f = ck.repo.func(XP, "ASTXpath.__init__")
    what = "ASTXpath.__init__ parses the text on every call (a cached instance does not keep an older resolution of the class names)"
    leaves = decision_tree(strip_docstring(f.node.body), try_as_body=True, resolve=True)
    lazy = [lf for lf in leaves if lf.outcome in ("fall", "return") and not any(
        isinstance(c, ast.Call) and isinstance(c.func, ast.Attribute) and c.func.attr == "parse" for st in lf.stmts for c in ast.walk(st))]
    if lazy:
        ck.violation(rule, f, f.node, what, construct=f"ASTXpath.__init__: returns without parsing when {lazy[0].assign}")
    elif leaves:
        ck.holds(rule, f, f.node, what, evaluations=len(leaves))


def run(ck: Checker) -> None:
    ck.explanation = (
        "Grammar <-> transformer agreement (the grammar literal is loaded with lark's grammar loader; a variadic kept terminal requires a "
        "callback that consumes all arguments), truth table of the shared step predicate over its six atoms, root presentation in both "
        "algorithms (must-pass-through of the root sanitiser in findall; get_parent_info in match), full traversal for '//' in findall, "
        "decision tree of the bottom-up matcher with the ancestor loop abstracted, find = first of findall, element bookkeeping of the "
        "transformer (every compiled step has a class; folding '//' keeps class, field and index), ordered-set work lists. Equivalence of the two algorithms "
        "as programs over all paths and trees is not decided."
    )
    ck.rule_text = "one obligation per grammar rule / call site / decision tree"
    ck.assumptions += ["lark filters anonymous string tokens from callback arguments and keeps named terminals",
                       "Tree.get_parent_info returns (None, None, None) for the root (C06)"]
    ck.guard("R-GRAM-ARITY", lambda: r_gram_arity(ck, XP))
    ck.guard("R-XP-SHARED", lambda: r_shared(ck))
    ck.guard("R-XP-ROOT", lambda: r_root(ck))
    ck.guard("R-XP-ANYWHERE", lambda: r_anywhere(ck))
    ck.guard("R-XP-FIND", lambda: r_find(ck))
    ck.guard("R-XP-FIND", lambda: r_xp_compile_each(ck))
    ck.guard("R-XP-FIND", lambda: r_all_candidates(ck))
    ck.guard("R-XP-ELEMENTS", lambda: r_xp_elements(ck))
    ck.guard("R-XP-ONCE", lambda: r_xp_once(ck))
    ck.guard("R-XP-ELEMENTS", lambda: r_empty_step(ck))
    ck.guard("R-XP-ELEMENTS", lambda: r_step_part_kinds(ck))
    ck.guard("R-XP-SHARED", lambda: r_xp_cache_key(ck))
    from . import state_rules as S7b
    ck.guard("R-XP-SHARED", lambda: S7b.r_memo_of_live_view(ck, "R-XP-SHARED", (XP, "pyoak.match.helpers")))
    from . import state_rules as S
    ck.guard("R-XP-SHARED", lambda: S.r_stateless(ck, "R-XP-SHARED", XP, "ASTXpath", ("match", "findall"), "a compiled xpath is interned per text and used for any tree"))
    ck.guard("R-XP-SHARED", lambda: S.r_stateless(ck, "R-XP-SHARED", XP, "XPathTransformer", None, "one transformer instance serves every parse, also after a failed one"))
    from .c17 import r_reusable
    ck.guard("R-XP-ELEMENTS", lambda: r_reusable(ck))
    ck.guard("R-XP-ANYWHERE", lambda: S.r_pruned_walk(ck, "R-XP-ANYWHERE", [(XP, "ASTXpath.findall")], "a '//' step has every descendant as a candidate"))
    ck.guard("R-XP-SHARED", lambda: S.r_unstable_key(ck, "R-XP-SHARED", [(XP, "ASTXpath.match"), (XP, "ASTXpath.findall"), (XP, "ASTXpath.find")], "match and findall look at the tree they are given"))
    ck.require_count("R-XP-SHARED", 3)
    ck.require_count("R-XP-ANYWHERE", 3)
