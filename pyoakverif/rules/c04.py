"""C04 — Serialization round-trips trees exactly (structural clauses)."""
from __future__ import annotations

import ast

from ..astutil import dotted, is_const, is_none, kw, norm, strip_docstring, walk_body
from ..dtree import decision_tree
from ..finite import k_eq, k_is, k_none
from ..report import Checker
from ..srcmodel import Func, Unsupported
from .c03 import reg_mutations
from .c08 import r_singleton_state

NODE = "pyoak.node"
SER = "pyoak.serialize"
ORIGIN = "pyoak.origin"
MIXIN = "DataClassSerializeMixin"
REG = "NODE_REGISTRY"


def r_deser_id(ck: Checker) -> None:
    f = ck.repo.func(NODE, "ASTNode._deserialize")
    body = strip_docstring(f.node.body)
    vp = f.node.args.args[1].arg
    key = f"{vp}['id']"
    hit = f"{REG}.get({key})"
    # a positive pattern: a node that was looked up in the registry (i.e. existed before this call) is unregistered
    scan: list[ast.stmt] = list(body)
    m_ = ck.repo.mod(NODE)
    for c in [n for n in walk_body(body) if isinstance(n, ast.Call) and isinstance(n.func, ast.Name)]:
        if ck.repo.has_func(NODE, c.func.id) and ck.repo.is_new_helper(m_, c.func.id):
            scan += ck.repo.func(NODE, c.func.id).node.body  # a helper of later origin that could not be inlined (e.g. recursive)
    looked_up = {st.targets[0].id for st in walk_body(scan) if isinstance(st, ast.Assign) and len(st.targets) == 1 and isinstance(st.targets[0], ast.Name)
                 and ((isinstance(st.value, ast.Call) and isinstance(st.value.func, ast.Attribute) and dotted(st.value.func.value) == REG and st.value.func.attr == "get")
                      or (isinstance(st.value, ast.Subscript) and dotted(st.value.value) == REG))}
    for c in [n for n in walk_body(scan) if isinstance(n, ast.Call)]:
        tgt = None
        if dotted(c.func) == "_unregister" and c.args and isinstance(c.args[0], ast.Name):
            tgt = c.args[0].id
        elif isinstance(c.func, ast.Attribute) and dotted(c.func.value) == REG and c.func.attr == "pop" and c.args and isinstance(c.args[0], ast.Attribute) \
                and c.args[0].attr == "id" and isinstance(c.args[0].value, ast.Name):
            tgt = c.args[0].value.id
        if tgt is not None and tgt in looked_up:
            ck.violation("R-DESER-ID", f, c, "deserialization removes from the registry only what it registered itself (the provisional entry of the node it builds)",
                         positive=True, construct=f"_deserialize: {norm(c)[:50]} unregisters {tgt}, a node found in the registry (registered before this call): live nodes are evicted when loading fails")
            return
    leaves = decision_tree(body, try_as_body=True, resolve=True)
    what0 = "deserialization consults the registry under the serialized id first and returns a hit as is"
    k_hit = k_none(hit)
    k_hit_in = f"in({key},{REG})"
    first_keys = {list(lf.assign)[0] for lf in leaves if lf.assign}
    if not first_keys or not first_keys <= {k_hit, k_hit_in}:
        looks = [k for k in first_keys if REG in k]
        if looks and any(key in k for k in looks) or not any(REG in norm(st) for st in body[:2]):
            ck.violation("R-DESER-ID", f, f.node, what0, construct="_deserialize does not start with a registry lookup under value['id']",
                         first_test=sorted(first_keys))
            return
        if not any(REG in k for lf in leaves for k in lf.assign):
            # no decision of the function consults the registry at all: a node is built whether or not one is registered under the id
            ck.violation("R-DESER-ID", f, f.node, what0, construct="_deserialize does not start with a registry lookup under value['id']", first_test=sorted(first_keys))
            return
        raise Unsupported(f"_deserialize: the first decision {sorted(first_keys)} is not recognised as the registry lookup under value['id']", f.node)

    def is_hit(lf) -> bool | None:
        if k_hit in lf.assign:
            return not lf.assign[k_hit]
        if k_hit_in in lf.assign:
            return lf.assign[k_hit_in]
        return None

    bad0 = [lf for lf in leaves if is_hit(lf) is True and not (lf.outcome == "return" and lf.val() in (hit, f"{REG}[{key}]"))]
    (ck.violation if bad0 else ck.holds)("R-DESER-ID", f, f.node, what0, **({"construct": "_deserialize: a registry hit is not returned as is"} if bad0 else {}))
    miss = [lf for lf in leaves if is_hit(lf) is False]
    what = ("on every path that returns the re-created object its id equals the serialized id (by the branch condition or by a forced "
            "store), the registry maps the serialized id to it, and the provisional key was removed first")
    bad = []
    if not miss:
        bad.append("no path re-creates the node")
    for lf in miss:
        creates = [st for st in lf.stmts if isinstance(st, ast.Assign) and isinstance(st.value, ast.Call) and norm(st.value.func).endswith("._deserialize")]
        if len(creates) != 1:
            bad.append("the node is not re-created through the base class _deserialize")
            continue
        obj = norm(creates[0].targets[0])
        k_eq_ = k_eq(f"{obj}.id", key)
        if lf.outcome != "return" or lf.val() != obj:
            bad.append(f"returns {lf.val()}")
            continue
        if k_eq_ not in lf.assign:
            bad.append("the id of the re-created node is never compared with the serialized id (it may carry a different collision suffix)")
            continue
        if lf.assign[k_eq_]:
            continue  # ids agree already
        seq = []
        for st in lf.stmts:
            for kind, node, k in reg_mutations(ast.FunctionDef(name="x", args=f.node.args, body=[st], decorator_list=[], lineno=0, col_offset=0)):
                seq.append((kind, norm(k) if k is not None else None, norm(st.value) if kind == "store" and isinstance(st, ast.Assign) else None))
            for c in ast.walk(st):
                if isinstance(c, ast.Call) and dotted(c.func) == "object.__setattr__" and len(c.args) == 3 and is_const(c.args[1], "id"):
                    seq.append(("force", norm(c.args[0]), norm(c.args[2])))
        want = [("remove", f"{obj}.id", None), ("force", obj, key), ("store", key, obj)]
        # after `force(obj, X)` the text `obj.id` denotes X: a store keyed by `obj.id` that follows the force is a store under X
        forced: dict[str, str] = {}
        seq2 = []
        for kind, a_, b_ in seq:
            if kind == "force":
                forced[f"{a_}.id"] = b_
                seq2.append((kind, a_, b_))
            elif kind == "store" and a_ in forced:
                seq2.append((kind, forced[a_], b_))
            else:
                seq2.append((kind, a_, b_))
        seq = seq2
        if seq != want:
            bad.append(f"ids differ: effects {seq}, expected remove provisional key -> force id -> register under the serialized id")
    (ck.violation if bad else ck.holds)("R-DESER-ID", f, f.node, what, evaluations=len(leaves), **({"construct": f"_deserialize: {bad[0]}"} if bad else {}))


def r_tag_table(ck: Checker) -> None:
    ps = ck.repo.func(SER, f"{MIXIN}.__post_serialize__")
    ds = ck.repo.func(SER, f"{MIXIN}._deserialize")
    isc = ck.repo.func(SER, f"{MIXIN}.__init_subclass__")
    wkeys = [norm(st.targets[0].slice) for st in walk_body(ps.node.body) if isinstance(st, ast.Assign) and isinstance(st.targets[0], ast.Subscript)
             and norm(st.value) in ("self.__class__.__name__", "type(self).__name__")]
    wkeys += [norm(k_) for d_ in walk_body(ps.node.body) if isinstance(d_, ast.Dict) for k_, v_ in zip(d_.keys, d_.values)
              if k_ is not None and norm(v_) in ("self.__class__.__name__", "type(self).__name__")]
    rkeys = [norm(c.args[0]) for c in walk_body(ds.node.body) if isinstance(c, ast.Call) and isinstance(c.func, ast.Attribute) and c.func.attr == "get"
             and norm(c.func.value) == ds.node.args.args[1].arg]
    what = "the type tag is written and read under the same key, and its value is the class name"
    if wkeys and rkeys and wkeys[0] == rkeys[0]:
        ck.holds("R-TAG-TABLE", ps, ps.node, what, key=wkeys[0])
    else:
        ck.violation("R-TAG-TABLE", ps, ps.node, what, construct=f"tag written under {wkeys}, read under {rkeys}")
    regs = [st for st in walk_body(isc.node.body) if isinstance(st, ast.Assign) and isinstance(st.targets[0], ast.Subscript) and norm(st.targets[0].value) == "TYPES"]
    what = "every subclass is registered in TYPES under its class name"
    ok = len(regs) == 1 and norm(regs[0].targets[0].slice) == "cls.__name__" and norm(regs[0].value) == "cls" and regs[0] in isc.node.body
    (ck.holds if ok else ck.violation)("R-TAG-TABLE", isc, isc.node, what, **({} if ok else {"construct": f"__init_subclass__: {[norm(r) for r in regs]}"}))
    leaves = decision_tree(strip_docstring(ds.node.body))
    vp = ds.node.args.args[1].arg
    tag = f"{vp}.get({wkeys[0] if wkeys else 'TYPE_KEY'})"
    bad = []
    k_str = f"isinstance({tag}, str)"
    # `cls` is re-bound only to the tagged lookup (if at all)
    stores_cls_elsewhere = any(isinstance(st_, ast.Assign) and any(isinstance(t_, ast.Name) and t_.id == "cls" for t_ in st_.targets)
                               and norm(st_.value) not in (f"TYPES.get({tag}, None)", f"TYPES.get({tag})") for st_ in walk_body(ds.node.body))
    for lf in leaves:
        a = lf.assign
        if k_str not in a:
            bad.append("does not test whether a tag is present")
            continue
        # the class variable: what the None-test / from_dict receiver names; its value is the last store on this path
        stores: list[tuple[str, str]] = []
        for st in lf.stmts:
            if isinstance(st, ast.Assign) and len(st.targets) == 1 and isinstance(st.targets[0], ast.Name):
                stores.append((st.targets[0].id, norm(st.value)))
            elif isinstance(st, ast.AnnAssign) and isinstance(st.target, ast.Name) and st.value is not None:
                stores.append((st.target.id, norm(st.value)))
        tagged = (f"TYPES.get({tag}, None)", f"TYPES.get({tag})")
        names = [n for n, v in stores if v in tagged or v == "cls"]
        czname = names[-1] if names else None
        cz = [v for n, v in stores if n == czname][-1] if czname else None
        if czname is None and not stores_cls_elsewhere and any(f"cls.from_dict({vp}" in norm(st_) for st_ in ds.node.body for st_ in ast.walk(st_) if isinstance(st_, ast.Call)):
            czname, cz = "cls", "cls"  # the receiving class itself is the class variable (re-bound only under a tag)
        if czname is None:
            raise Unsupported(f"{MIXIN}._deserialize: class variable not identified on path {a}", ds.node)
        if a[k_str] and cz not in tagged:
            bad.append(f"tag present: class looked up as {cz}")
        if not a[k_str] and cz != "cls":
            bad.append(f"no tag: class is {cz} instead of the receiving class")
        kn = k_none(czname)
        if a.get(kn) is True and not (lf.outcome == "raise" and "ValueError" in (lf.val() or "")):
            bad.append("unknown class name does not raise ValueError")
        if a.get(kn) is False and not (lf.outcome == "return" and f"{czname}.from_dict({vp}" in (lf.val() or "")):
            bad.append(f"known class: returns {lf.val()}")
        if kn not in a and a[k_str]:
            bad.append("a tagged class name is used without checking that it is registered")
        if kn not in a and not a[k_str] and not (lf.outcome == "return" and f"{czname}.from_dict({vp}" in (lf.val() or "")):
            bad.append(f"untagged: returns {lf.val()}")
    what = "mixin _deserialize: the tagged class is looked up in TYPES (untagged: the receiving class), an unknown name raises, the instance is built by that class's from_dict"
    (ck.violation if bad else ck.holds)("R-TAG-TABLE", ds, ds.node, what, evaluations=len(leaves), **({"construct": f"{MIXIN}._deserialize: {bad[0]}"} if bad else {}))


def r_codec_config(ck: Checker) -> None:
    """mashumaro Config switches that drop values from the output (omit_default / omit_none): a value equal to the default is not the
    default (0.0 == 0, -0.0 == 0.0), and what was dropped comes back as the default."""
    what = "no serializable class switches on a mashumaro option that leaves values out of the output"
    for m in ck.repo.nonlegacy():
        for c in [x for x in ast.walk(m.tree) if isinstance(x, ast.ClassDef) and x.name == "Config"]:
            for st in c.body:
                tg = st.targets[0] if isinstance(st, ast.Assign) and len(st.targets) == 1 else (st.target if isinstance(st, ast.AnnAssign) else None)
                if isinstance(tg, ast.Name) and tg.id in ("omit_default", "omit_none") and isinstance(getattr(st, "value", None), ast.Constant) and st.value.value is True:
                    ck.violation("R-FMT-PAIR", (m.rel, "class Config"), st, what, positive=True,
                                 construct=f"Config.{tg.id} = True: a field whose value compares equal to its default is left out and re-created as the default "
                                 "(0.0 for a default of 0, -0.0 for 0.0 ...): the re-created node has another value and content_id")
                    return
    ck.holds("R-FMT-PAIR", ("src/pyoak", "*"), None, what)


def r_one_source_table(ck: Checker) -> None:
    """One registry for all sources: `clear_registry` rebinds the tables on the class it is called through (`cls._sources = {}`), so a
    table reached through `self` / `cls` is the table of whichever subclass last cleared "its" registry, while writer and reader of an
    index must use the same one.  Positive pattern: a rebinding through `cls` exists and an access in a registering / (de)serializing method
    goes through `self` / `cls` instead of the class that owns the tables."""
    c = ck.repo.cls(ORIGIN, "Source")
    T_ = ("_sources", "_source_idx_to_source")
    rebinds = [x for st in c.node.body if isinstance(st, ast.FunctionDef) for x in ast.walk(st)
               if isinstance(x, ast.Attribute) and isinstance(x.ctx, ast.Store) and x.attr in T_ and norm(x.value) in ("cls", "self", "type(self)", "self.__class__")]
    n = 0
    for st in c.node.body:
        if not (isinstance(st, ast.FunctionDef) and st.name in ("__post_init__", "_serialize", "_deserialize", "source_registry_id", "load_serialized_sources", "all_as_dict")):
            continue
        for x in ast.walk(st):
            if isinstance(x, ast.Attribute) and x.attr in T_ and isinstance(x.ctx, ast.Load):
                n += 1
                what = f"Source.{st.name}: the source tables are the ones owned by Source itself, whichever subclass the call comes through"
                if rebinds and norm(x.value) in ("cls", "self", "type(self)", "self.__class__"):
                    ck.violation("R-IDX-PAIR", (c.mod.rel, f"Source.{st.name}"), x, what, positive=True,
                                 construct=f"Source.{st.name}: {norm(x)} — clear_registry rebinds `{norm(rebinds[0])}` on the class it is called through; after SubSource.clear_registry() "
                                 "instances of that subclass register in and are resolved from a table of their own")
                    return
                ck.holds("R-IDX-PAIR", (c.mod.rel, f"Source.{st.name}"), x, what)
    if n < 4:
        ck.incomplete("R-IDX-PAIR", None, None, f"only {n} accesses of the source tables found (>= 4 confirmed by hand)")


def r_index_live(ck: Checker) -> None:
    """The registry index of a source is looked up when it is needed: the registry can be cleared and refilled in another order."""
    what = "a source's registry index is read from the registry at the time of use (never remembered on the source)"
    c = ck.repo.cls(ORIGIN, "Source")
    for st in c.node.body:
        if isinstance(st, ast.FunctionDef) and any((dotted(d.func if isinstance(d, ast.Call) else d) or "").split(".")[-1] in ("cached_property", "lru_cache", "cache") for d in st.decorator_list) \
                and any(isinstance(x, ast.Attribute) and x.attr in ("_sources", "_source_idx_to_source") for x in ast.walk(st)):
            ck.violation("R-IDX-PAIR", (c.mod.rel, f"Source.{st.name}"), st, what, positive=True,
                         construct=f"Source.{st.name} is memoised but reads the source registry: after clear_registry() and re-registration the source keeps its old index")
            return
    ck.holds("R-IDX-PAIR", (c.mod.rel, "class Source"), c.node, what)


def r_singleton_rt(ck: Checker) -> None:
    m = ck.repo.mod(ORIGIN)
    consts = {}
    for st in m.tree.body:
        if isinstance(st, ast.Assign) and isinstance(st.value, ast.Call) and isinstance(st.targets[0], ast.Name) and not st.value.args:
            consts[st.targets[0].id] = dotted(st.value.func)
    placeholders = []
    for st in m.tree.body:
        if isinstance(st, ast.ClassDef):
            for b in st.body:
                if isinstance(b, ast.FunctionDef) and b.name == "_serialize":
                    rets = [r for r in walk_body(b.body) if isinstance(r, ast.Return)]
                    if len(rets) == 1 and isinstance(rets[0].value, ast.Dict) and not rets[0].value.keys:
                        placeholders.append(st)
    fam = {"NoSource": "Source", "NoPosition": "Position", "NoOrigin": "Origin"}
    for p in placeholders:
        base = fam.get(p.name)
        what = f"{p.name} serialises to {{}} and the _deserialize of its family maps {{}} and the tag '{p.name}' back to the singleton"
        if base is None:
            ck.violation("R-SINGLETON-RT", (m.rel, f"class {p.name}"), p, what, construct=f"{p.name} serialises to {{}} but no family deserializer restores it")
            continue
        f = ck.repo.func(ORIGIN, f"{base}._deserialize")
        vp = f.node.args.args[1].arg
        leaves = decision_tree(strip_docstring(f.node.body), max_atoms=8)
        k_empty = "eq(" + ",".join(sorted((vp, "{}"))) + ")"
        k_tag = "eq(" + ",".join(sorted((f"'{p.name}'", f"{vp}[TYPE_KEY]"))) + ")"
        ok_empty = ok_tag = False
        bad = None
        for lf in leaves:
            v = lf.val() or ""
            is_single = v == f"{p.name}()" or consts.get(v) == p.name
            if lf.assign.get(k_empty) is True:
                ok_empty = is_single
                if not is_single:
                    bad = f"{{}} is restored as {v}"
            elif lf.assign.get(k_tag) is True:
                ok_tag = is_single
                if not is_single:
                    bad = f"tag {p.name} is restored as {v}"
        if ok_empty and ok_tag and not bad:
            ck.holds("R-SINGLETON-RT", f, f.node, what, evaluations=len(leaves))
        else:
            ck.violation("R-SINGLETON-RT", f, f.node, what, construct=f"{base}._deserialize: {bad or 'the empty mapping / the tag is not mapped to the singleton'}")
    if len(placeholders) < 3:
        ck.incomplete("R-SINGLETON-RT", None, None, f"only {len(placeholders)} placeholder classes (3 expected)")
    single = [ck.repo.cls(ORIGIN, n) for n in ("NoSource", "NoPosition", "NoOrigin", "EntireSourcePosition")]
    r_singleton_state(ck, single)
    from ..dcmodel import caching_new
    for c in single:
        if caching_new(c) is None:
            ck.violation("R-SINGLETON-RT", (c.mod.rel, f"class {c.name}"), c.node, f"{c.name} is a singleton (comes back as the same object)",
                         construct=f"{c.name} has no caching __new__")


def r_fmt_pair(ck: Checker) -> None:
    def call_in(q: str, attr: str) -> list[ast.Call]:
        f = ck.repo.func(SER, f"{MIXIN}.{q}")
        return [c for c in walk_body(f.node.body) if isinstance(c, ast.Call) and isinstance(c.func, ast.Attribute) and c.func.attr == attr]

    pairs = [("to_jsonb", "from_json", "OrjsonDialect"), ("to_msgpck", "from_msgpck", "MessagePackDialect"), ("to_yaml", "from_yaml", "mashumaro_dialect")]
    for to, frm, dialect in pairs:
        a = call_in(to, "as_dict")
        b = call_in(frm, "as_obj")
        da = {norm(kw(c, "mashumaro_dialect")) if kw(c, "mashumaro_dialect") is not None else None for c in a}
        db = {norm(kw(c, "mashumaro_dialect")) if kw(c, "mashumaro_dialect") is not None else None for c in b}
        what = f"{to}/{frm} use the same mashumaro dialect on both sides ({dialect})"
        f = ck.repo.func(SER, f"{MIXIN}.{to}")
        if a and b and da == db == {dialect}:
            ck.holds("R-FMT-PAIR", f, f.node, what)
        else:
            ck.violation("R-FMT-PAIR", f, f.node, what, construct=f"{to} uses {sorted(map(str, da))}, {frm} uses {sorted(map(str, db))}")
    f = ck.repo.func(SER, f"{MIXIN}.to_msgpck")
    g = ck.repo.func(SER, f"{MIXIN}.from_msgpck")
    pk = [c for c in walk_body(f.node.body) if isinstance(c, ast.Call) and dotted(c.func) == "msgpack.packb"]
    up = [c for c in walk_body(g.node.body) if isinstance(c, ast.Call) and dotted(c.func) == "msgpack.unpackb"]
    what = "MessagePack: use_bin_type=True on the writer pairs with raw=False on the reader (str stays str, bytes stay bytes)"
    ok = len(pk) == 1 and len(up) == 1 and is_const(kw(pk[0], "use_bin_type") or ast.Constant(value=None), True) \
        and is_const(kw(up[0], "raw") or ast.Constant(value=None), False)
    (ck.holds if ok else ck.violation)("R-FMT-PAIR", f, f.node, what, **({} if ok else {"construct": f"packb {[norm(c)[:60] for c in pk]} / unpackb {[norm(c)[:60] for c in up]}"}))
    # other reader / writer options of the MessagePack codec: only the ones known to keep the value kinds apart
    what = "MessagePack: no codec option that changes the kind of a value (lists stay lists, keys stay what they were)"
    READER_OK = {"raw": (False,), "use_list": (True,), "strict_map_key": (True, False), "timestamp": (0,)}
    WRITER_OK = {"use_bin_type": (True,), "strict_types": (True, False), "datetime": (False,), "use_single_float": (False,)}
    for calls, table, side in ((up, READER_OK, "unpackb"), (pk, WRITER_OK, "packb")):
        for c in calls:
            for k in c.keywords:
                if k.arg is None:
                    raise Unsupported(f"msgpack.{side} called with **options", c)
                if k.arg in table and isinstance(k.value, ast.Constant) and k.value.value in table[k.arg]:
                    continue
                if k.arg == "use_list" and is_const(k.value, False):
                    ck.violation("R-FMT-PAIR", g, c, what, positive=True, construct="from_msgpck: unpackb(use_list=False) turns every serialized list into a tuple (list values of untyped properties come back as tuples)")
                    break
                if k.arg in ("object_hook", "object_pairs_hook", "list_hook", "ext_hook", "default"):
                    raise Unsupported(f"msgpack.{side}({k.arg}=...) installs a conversion hook", c)
                if k.arg in table:
                    ck.violation("R-FMT-PAIR", g if side == "unpackb" else f, c, what, construct=f"msgpack.{side}({k.arg}={norm(k.value)[:30]})")
                    break
                raise Unsupported(f"msgpack.{side} option {k.arg} is not in the audited table", c)
            else:
                continue
            break
        else:
            continue
        break
    else:
        ck.holds("R-FMT-PAIR", g, g.node, what)
    # codec options of the JSON writer: only options that leave the encoded values alone (layout only)
    fj = ck.repo.func(SER, f"{MIXIN}.to_jsonb")
    LAYOUT_ONLY = {"OPT_INDENT_2", "OPT_APPEND_NEWLINE"}
    what = "to_jsonb passes orjson no option that changes how a value is encoded (the reader has no matching option)"
    used: set[str] = set()
    for n_ in ast.walk(fj.node):
        if isinstance(n_, ast.Attribute) and n_.attr.startswith("OPT_") and norm(n_.value) == "orjson":
            used.add(n_.attr)
    alter = sorted(used - LAYOUT_ONLY)
    if alter:
        ck.violation("R-FMT-PAIR", fj, fj.node, what, construct=f"to_jsonb passes orjson.{alter[0]} (values are written in a form the reader does not undo)")
    else:
        ck.holds("R-FMT-PAIR", fj, fj.node, what, options=sorted(used))
    f = ck.repo.func(SER, f"{MIXIN}.to_json")
    cs = [c for c in walk_body(f.node.body) if isinstance(c, ast.Call) and isinstance(c.func, ast.Attribute) and c.func.attr == "to_jsonb"]
    what = "to_json is to_jsonb decoded as UTF-8"
    ok = len(cs) == 1 and "decode" in norm(f.node) and "utf-8" in norm(f.node).lower()
    (ck.holds if ok else ck.violation)("R-FMT-PAIR", f, f.node, what, **({} if ok else {"construct": "to_json does not decode to_jsonb as utf-8"}))


def r_idx_pair(ck: Checker) -> None:
    s = ck.repo.func(ORIGIN, "Source._serialize")
    d = ck.repo.func(ORIGIN, "Source._deserialize")
    p = ck.repo.func(ORIGIN, "Source.__post_init__")
    w = [r for r in walk_body(s.node.body) if isinstance(r, ast.Return) and isinstance(r.value, ast.Dict) and r.value.keys]
    what = "the index form writes {'idx': Source._sources[self]} and the reader looks the same key up in Source._source_idx_to_source"
    wk = norm(w[0].value.keys[0]) if w else None
    wv = norm(w[0].value.values[0]) if w else None
    reads = [c for c in walk_body(d.node.body) if isinstance(c, ast.Call) and isinstance(c.func, ast.Attribute) and c.func.attr == "get"
             and norm(c.func.value) == d.node.args.args[1].arg]
    look = [c for c in walk_body(d.node.body) if isinstance(c, ast.Call) and norm(c.func) == "Source._source_idx_to_source.get"]
    look += [c for c in walk_body(d.node.body) if isinstance(c, ast.Subscript) and norm(c.value) == "Source._source_idx_to_source"]
    rk = norm(reads[0].args[0]) if reads else None
    ok = len(w) == 1 and wk == "'idx'" and wv == "Source._sources[self]" and rk == "'idx'" and len(look) >= 1
    if not ok:
        if w and wk is not None and rk is not None and wk != rk:
            ck.violation("R-IDX-PAIR", s, s.node, what, positive=True, construct=f"writer key {wk}, reader key {rk}")
        else:
            raise Unsupported(f"index form not recognised: writer key {wk} value {wv}; reader key {rk}; {len(look)} table lookups", s.node)
    else:
        # on every path of the reader, the table is consulted with the value read under the key (index form) or with the registry id of the
        # re-created object (full form)
        vp_ = d.node.args.args[1].arg
        tag_ = f"{vp_}.get('idx')"
        bad_k = None
        n_look = 0
        for lf in decision_tree(strip_docstring(d.node.body), resolve="calls", max_atoms=12):
            stmts_, rv_ = lf.resolved(calls=True)
            for x in list(stmts_) + ([ast.Expr(value=rv_)] if rv_ is not None else []):
                for c in ast.walk(x):
                    key_ = None
                    if isinstance(c, ast.Call) and norm(c.func) == "Source._source_idx_to_source.get" and c.args:
                        key_ = norm(c.args[0])
                    elif isinstance(c, ast.Subscript) and norm(c.value) == "Source._source_idx_to_source":
                        key_ = norm(c.slice)
                    if key_ is None:
                        continue
                    n_look += 1
                    if key_ in (tag_, f"{vp_}['idx']", f"{vp_}.get('idx', None)") or key_.endswith(".source_registry_id"):
                        continue
                    if key_.startswith(f"{vp_}.get(") or key_.startswith(f"{vp_}["):
                        bad_k = f"the table is consulted with {key_} (not the value written under 'idx')"
                    elif bad_k is None:
                        raise Unsupported(f"Source._deserialize: table lookup with {key_[:60]}", d.node)
        if bad_k:
            ck.violation("R-IDX-PAIR", s, s.node, what, positive=True, construct=f"Source._deserialize: {bad_k}")
        elif not n_look:
            raise Unsupported("Source._deserialize: no lookup in the index table on any path", d.node)
        else:
            ck.holds("R-IDX-PAIR", s, s.node, what, evaluations=n_look)
    stores = sorted([st for st in walk_body(p.node.body) if isinstance(st, ast.Assign) and isinstance(st.targets[0], ast.Subscript)], key=lambda x: x.lineno)
    what = "both source tables are filled together in Source.__post_init__ with the same index"
    ok = len(stores) == 2 and norm(stores[0]) == "Source._sources[self] = len(Source._sources)" \
        and norm(stores[1]) == "Source._source_idx_to_source[len(Source._sources) - 1] = self"
    if not ok and len(stores) == 2:
        # idx = len(...) bound once and used for both
        names = {norm(st.targets[0].value): (norm(st.targets[0].slice), norm(st.value)) for st in stores}
        a, b = names.get("Source._sources"), names.get("Source._source_idx_to_source")
        ok = a is not None and b is not None and a[0] == "self" and b[1] == "self" and a[1] == b[0] and not a[1].startswith("len(")
    (ck.holds if ok else ck.violation)("R-IDX-PAIR", p, p.node, what, **({} if ok else {"construct": f"Source.__post_init__ stores {[norm(s_) for s_ in stores]}"}))
    what = "an unknown index raises instead of fabricating a source"
    dl = decision_tree(strip_docstring(d.node.body), max_atoms=10, resolve="calls")
    bad_ = None
    n_look = 0
    for lf in dl:
        miss = [v for k, v in lf.assign.items() if k.startswith("is(None,Source._source_idx_to_source.get(") or k.startswith("is(None,ret)")]
        if lf.outcome == "raise":
            continue
        if lf.outcome != "return" or lf.value is None:
            raise Unsupported(f"Source._deserialize: a path ends with {lf.outcome}", d.node)
        v = norm(lf.value)
        if v in ("NoSource()", "NO_SOURCE"):
            continue
        is_lookup = v.startswith(("Source._source_idx_to_source.get(", "Source._source_idx_to_source[")) or (v == "ret" and miss)
        if not is_lookup:
            bad_ = bad_ or f"returns {v[:50]} (not an entry of the source table)"
            continue
        n_look += 1
        if v.startswith("Source._source_idx_to_source[") or (miss and miss[-1] is False):
            continue  # a missing entry raises KeyError / was excluded on this path
        bad_ = bad_ or "an unknown index is returned as None instead of raising"
    if not bad_ and not n_look:
        raise Unsupported("Source._deserialize: no path returns an entry of the source table", d.node)
    (ck.holds if not bad_ else ck.violation)("R-IDX-PAIR", d, d.node, what, **({"evaluations": len(dl)} if not bad_ else {"construct": f"Source._deserialize: {bad_}"}))


def r_seq_canon(ck: Checker) -> None:
    """A compared field of a serializable dataclass that is annotated with an *abstract* sequence type (Sequence / Collection / Iterable)
    accepts a tuple as well as a list, mashumaro reads such a field back as a list, and the generated dataclass __eq__ compares the two
    containers with == (a tuple never equals a list).  So the value built with a tuple is not == to what its own serialization reads
    back unless the class brings the field to one concrete container type when it is constructed (`object.__setattr__(self, f,
    tuple(self.f))` / `list(...)` in __post_init__)."""
    ABSTRACT = ("Sequence", "Collection", "Iterable", "MutableSequence", "Reversible")
    n = 0
    for modname in (ORIGIN, "pyoak.node", "pyoak.serialize"):
        m_ = ck.repo.mod(modname)
        for c in [x for x in ast.walk(m_.tree) if isinstance(x, ast.ClassDef)]:
            if not any((dotted(d.func if isinstance(d, ast.Call) else d) or "").split(".")[-1] == "dataclass" for d in c.decorator_list):
                continue
            for st in c.body:
                if not (isinstance(st, ast.AnnAssign) and isinstance(st.target, ast.Name)):
                    continue
                ann = st.annotation
                head = ann.value if isinstance(ann, ast.Subscript) else ann
                if (dotted(head) or "").split(".")[-1] not in ABSTRACT:
                    continue
                if isinstance(st.value, ast.Call) and any(k.arg == "compare" and isinstance(k.value, ast.Constant) and k.value.value is False for k in st.value.keywords):
                    continue
                n += 1
                fname = st.target.id
                what = (f"{c.name}.{fname} (annotated {norm(ann)[:40]}) is brought to one concrete container type at construction: a list read back by "
                        "deserialization and a tuple given by the caller compare equal")
                pi = next((x for x in c.body if isinstance(x, ast.FunctionDef) and x.name == "__post_init__"), None)
                canon = None
                if pi is not None:
                    for x in ast.walk(pi):
                        if isinstance(x, ast.Call) and dotted(x.func) in ("object.__setattr__", "setattr") and len(x.args) == 3 and isinstance(x.args[1], ast.Constant) \
                                and x.args[1].value == fname and isinstance(x.args[2], ast.Call) and dotted(x.args[2].func) in ("tuple", "list") \
                                and len(x.args[2].args) == 1 and norm(x.args[2].args[0]) == f"self.{fname}":
                            canon = x
                where = (m_.rel, f"{c.name}.__post_init__") if pi is not None else (m_.rel, f"class {c.name}")
                if canon is not None:
                    ck.holds("R-SINGLETON-RT", where, canon, what, container=dotted(canon.args[2].func))
                else:
                    ck.violation("R-SINGLETON-RT", where, pi or c, what,
                                 construct=f"{c.name}.{fname}: no normalisation of the container — {c.name}({fname}=(a, b)) is not == to what its own as_dict()/as_obj() round trip returns (a list)")
    if n == 0:
        ck.incomplete("R-SINGLETON-RT", None, None, "no field annotated with an abstract sequence type found (MultiOrigin.origins confirmed by hand)")


def r_path_verbatim(ck: Checker) -> None:
    """A Path property / source path is written so that the same Path is read back.  Normalising functions (normpath, resolve, absolute,
    expanduser, realpath, relative_to ...) map different paths to one text: `a/../b` comes back as `b`, another path, another source,
    another content_id (positive pattern: such a call on the way of a Path into the payload, i.e. anywhere in serialize.py)."""
    LOSSY = ("normpath", "resolve", "absolute", "expanduser", "realpath", "abspath", "relative_to", "normcase", "expandvars")
    m_ = ck.repo.mod(SER)
    bad = next((c for c in ast.walk(m_.tree) if isinstance(c, ast.Call) and (dotted(c.func) or "").split(".")[-1] in LOSSY), None)
    what = "paths are serialized as they are spelled (as_posix / str), so that the same Path is read back"
    if bad is not None:
        ck.violation("R-FMT-PAIR", (m_.rel, "<module>"), bad, what, positive=True, construct=f"serialize.py: {norm(bad)[:50]} rewrites the path on its way into the payload — paths that differ only in spelling are read back as one")
    else:
        ck.holds("R-FMT-PAIR", (m_.rel, "<module>"), None, what)


def r_payload_readonly(ck: Checker) -> None:
    """The mapping handed to a deserialization hook is the caller's object (as_obj passes it on; mashumaro passes nested mappings of it):
    a hook that pops / deletes / stores keys of it changes what a second read of the same payload sees (positive pattern)."""
    EDITS = ("pop", "popitem", "clear", "update", "setdefault", "__delitem__", "__setitem__")
    n = 0
    for modname in ("pyoak.serialize", "pyoak.node", "pyoak.origin"):
        m_ = ck.repo.mod(modname)
        for fn in [x for x in ast.walk(m_.tree) if isinstance(x, ast.FunctionDef) and x.name in ("_deserialize", "as_obj", "__pre_deserialize__", "from_json", "from_msgpck", "from_yaml")]:
            ps = [a.arg for a in fn.args.args if a.arg not in ("self", "cls")]
            if not ps:
                continue
            p_ = ps[0]
            n += 1
            aliases = {p_} | {st.targets[0].id for st in ast.walk(fn) if isinstance(st, ast.Assign) and len(st.targets) == 1 and isinstance(st.targets[0], ast.Name)
                              and isinstance(st.value, ast.Name) and st.value.id == p_}
            edits = [c for c in ast.walk(fn) if (isinstance(c, ast.Call) and isinstance(c.func, ast.Attribute) and c.func.attr in EDITS and norm(c.func.value) in aliases)
                     or (isinstance(c, ast.Subscript) and isinstance(c.ctx, (ast.Store, ast.Del)) and norm(c.value) in aliases)]
            rebound = any(isinstance(st, ast.Assign) and any(isinstance(t_, ast.Name) and t_.id == p_ for t_ in st.targets) for st in ast.walk(fn))
            what = f"{fn.name} ({modname}) reads the payload it is given and does not edit it (the caller may read the same payload again)"
            if edits and not rebound:
                ck.violation("R-DESER-ID", (m_.rel, fn.name), edits[0], what, positive=True,
                             construct=f"{fn.name}: {norm(edits[0])[:50]} edits the caller's payload in place — reading the same payload a second time sees different data")
            elif edits:
                raise Unsupported(f"{fn.name}: the payload parameter is rebound and edited", fn)
            else:
                ck.holds("R-DESER-ID", (m_.rel, fn.name), fn, what)
    if n < 4:
        ck.incomplete("R-DESER-ID", None, None, f"only {n} deserialization hooks found (>= 4 confirmed by hand)")


def r_no_serialized_memo(ck: Checker, rule: str = "R-FMT-PAIR") -> None:
    """What a serialization hook returns depends on the options of the call in progress (skip class, sort keys, source optimisation, dialect).
    A hook that keeps its result in a table that outlives the call hands the form made for one set of options to the next call
    (positive pattern: a store into a module-level / class-level table inside a _serialize / __post_serialize__ hook)."""
    from .state_rules import _mutable_container
    n = 0
    for modname in ("pyoak.serialize", "pyoak.node", "pyoak.origin"):
        m_ = ck.repo.mod(modname)
        tables: set[str] = set()
        for st in ast.walk(m_.tree):
            if isinstance(st, (ast.Assign, ast.AnnAssign)):
                tg = st.targets[0] if isinstance(st, ast.Assign) and len(st.targets) == 1 else (st.target if isinstance(st, ast.AnnAssign) else None)
                if isinstance(tg, ast.Name) and _mutable_container(st.value) and getattr(st, "col_offset", 1) in (0, 4):
                    tables.add(tg.id)
        tables -= {"TYPES", "_sources", "_source_idx_to_source", "NODE_REGISTRY"}
        for fn in [x for x in ast.walk(m_.tree) if isinstance(x, ast.FunctionDef) and x.name in ("_serialize", "__post_serialize__")]:
            n += 1
            what = f"{fn.name} ({modname}) builds its result for the call in progress and keeps no copy of it in a table that outlives the call"
            local = {t_.id for st in ast.walk(fn) if isinstance(st, ast.Assign) for t_ in st.targets if isinstance(t_, ast.Name)}
            bad = None
            for x in ast.walk(fn):
                if isinstance(x, ast.Subscript) and isinstance(x.ctx, ast.Store):
                    t_ = x.value.id if isinstance(x.value, ast.Name) and x.value.id not in local else (x.value.attr if isinstance(x.value, ast.Attribute) else None)
                    if t_ in tables:
                        bad = (x, t_)
                elif isinstance(x, ast.Call) and isinstance(x.func, ast.Attribute) and x.func.attr in ("setdefault", "update"):
                    v_ = x.func.value
                    t_ = v_.id if isinstance(v_, ast.Name) and v_.id not in local else (v_.attr if isinstance(v_, ast.Attribute) else None)
                    if t_ in tables:
                        bad = (x, t_)
            if bad:
                ck.violation(rule, (m_.rel, fn.name), bad[0], what, positive=True,
                             construct=f"{fn.name}: the serialized form is stored in `{bad[1]}` ({norm(bad[0])[:50]}) — a later call with other options gets the form made for this one")
            else:
                ck.holds(rule, (m_.rel, fn.name), fn, what)
    if n < 3:
        ck.incomplete(rule, None, None, f"only {n} serialization hooks found (>= 3 confirmed by hand)")


def run(ck: Checker) -> None:
    ck.explanation = (
        "Structural clauses of the round trip: typestate of the re-created node in ASTNode._deserialize (decision tree: registry hit returned "
        "as is; otherwise id compared with the serialized one and, if different, provisional key removed -> id forced -> registered), the "
        "writer's and reader's tag tables agree, every {} placeholder is mapped back to its singleton by the family deserializer and singletons "
        "carry no init-able state, every to_X/from_X pair uses the same dialect and codec options, the source index is written and read "
        "against tables filled together. Value-level fidelity of mashumaro / orjson / msgpack / yaml is third-party code generated at run "
        "time and is not decided by static analysis."
    )
    ck.rule_text = "one obligation per decided function / pair / placeholder class"
    ck.assumptions += ["mashumaro, orjson, msgpack and PyYAML round-trip the representable value kinds (not analysed)"]
    ck.guard("R-DESER-ID", lambda: r_deser_id(ck))
    ck.guard("R-DESER-ID", lambda: r_payload_readonly(ck))
    ck.guard("R-FMT-PAIR", lambda: r_path_verbatim(ck))
    ck.guard("R-SINGLETON-RT", lambda: r_seq_canon(ck))
    from . import state_rules as S4b
    ck.guard("R-SINGLETON-RT", lambda: S4b.r_unstable_key(ck, "R-SINGLETON-RT", [(ORIGIN, "Position._deserialize"), (ORIGIN, "Source._deserialize"), (ORIGIN, "Origin._deserialize"), ("pyoak.node", "ASTNode._deserialize"), (SER, "DataClassSerializeMixin")], "what is read back is built from the payload, not looked up by a name"))
    ck.guard("R-FMT-PAIR", lambda: r_no_serialized_memo(ck))
    ck.guard("R-TAG-TABLE", lambda: r_tag_table(ck))
    ck.guard("R-SINGLETON-RT", lambda: r_singleton_rt(ck))
    ck.guard("R-FMT-PAIR", lambda: r_fmt_pair(ck))
    ck.guard("R-IDX-PAIR", lambda: r_idx_pair(ck))
    ck.guard("R-IDX-PAIR", lambda: r_index_live(ck))
    ck.guard("R-IDX-PAIR", lambda: r_one_source_table(ck))
    from . import state_rules as S4
    ck.guard("R-IDX-PAIR", lambda: S4.r_who_calls(ck, "R-IDX-PAIR", (ORIGIN, "pyoak.node", "pyoak.serialize"), "clear_registry", (), "the source registry is emptied by the user only: loading sources, (de)serializing and constructing never drop registered sources"))
    ck.guard("R-IDX-PAIR", lambda: S4.r_index_presence(ck, "R-IDX-PAIR", [(ORIGIN, "Source._deserialize")], (r".*\.get\('idx'(, None)?\)", r".*\['idx'\]", r".*\.source_registry_id", r".*\._sources\[.*\]"), "the first source registered has index 0"))
    ck.guard("R-FMT-PAIR", lambda: r_codec_config(ck))
    # a multi-origin must come back equal: its derived source follows the members' sources by value
    from .c15 import r_multiorigin_init
    ck.guard("R-MULTIORIGIN", lambda: r_multiorigin_init(ck, "R-MULTIORIGIN"))
    # options of a failed / finished call must not leak into the next (otherwise a later plain dump is not readable in a fresh process)
    from .c16 import find_slots, r_opt_pair
    ck.guard("R-OPT-PAIR", lambda: r_opt_pair(ck, find_slots(ck)))
    ck.require_count("R-DESER-ID", 2)
    ck.require_count("R-TAG-TABLE", 3)
    ck.require_count("R-SINGLETON-RT", 3)
    ck.require_count("R-SINGLETON-STATE", 4)
    ck.require_count("R-FMT-PAIR", 5)
    ck.require_count("R-IDX-PAIR", 3)
