"""C08 — Pattern matching follows the documented semantics; captures are exact objects."""
from __future__ import annotations

import ast
import itertools

from ..astutil import decorators, dotted, is_const, is_none, kw, norm, strip_docstring, walk_body
from ..dcmodel import all_fields, caching_new
from ..dtree import decision_tree
from ..effects import scan_writes
from ..finite import Evaluator, NeedAtom, k_eq, k_is, k_none
from ..report import Checker
from ..srcmodel import Cls, Func, Unsupported

PAT = "pyoak.match.pattern"
MATCHERS = ("BaseMatcher", "AnyMatcher", "ValueMatcher", "RegexMatcher", "VarMatcher", "SequenceMatcher", "NodeMatcher")


def _tuple_ret(v: ast.expr | None) -> tuple[str, str] | None:
    if isinstance(v, ast.Tuple) and len(v.elts) == 2:
        return norm(v.elts[0]), norm(v.elts[1])
    return None


def split_pair_returns(body: list[ast.stmt]) -> list[ast.stmt]:
    """``return (E, X)`` with a comparison / boolean combination E is decided like ``if E: return (True, X) else: return (False, X)``
    (the consumers of a match result only test the truth of its first component)."""
    import copy

    class T(ast.NodeTransformer):
        def visit_Return(self, node: ast.Return) -> ast.AST:
            v = node.value
            if isinstance(v, ast.Tuple) and len(v.elts) == 2 and isinstance(v.elts[0], (ast.Compare, ast.BoolOp, ast.UnaryOp, ast.IfExp)) \
                    and not any(isinstance(x, ast.NamedExpr) for x in ast.walk(v)):
                def mk(b: bool) -> ast.stmt:
                    return ast.copy_location(ast.Return(value=ast.Tuple(elts=[ast.Constant(value=b), copy.deepcopy(v.elts[1])], ctx=ast.Load())), node)
                return ast.fix_missing_locations(ast.copy_location(ast.If(test=v.elts[0], body=[mk(True)], orelse=[mk(False)]), node))
            return node

        def visit_FunctionDef(self, node):
            return node

    return [T().visit(copy.deepcopy(st)) for st in body]


def r_api_re(ck: Checker) -> None:
    f = ck.repo.func(PAT, "RegexMatcher._match")
    calls = [c for c in walk_body(f.node.body) if isinstance(c, ast.Call) and isinstance(c.func, ast.Attribute)
             and c.func.attr in ("match", "search", "fullmatch", "findall", "finditer")
             and (norm(c.func.value) in ("self.pattern", "re") or "pattern" in norm(c.func.value))]
    what = "a quoted regex is tested with match (anchored at the start only) against str(value)"
    if not calls or len({norm(x) for x in calls}) != 1:
        raise Unsupported(f"RegexMatcher._match: {len(calls)} different regex calls", f.node)
    c = calls[0]
    arg = c.args[-1] if c.args else None
    if c.func.attr != "match":
        ck.violation("R-API-RE", f, c, what, construct=f"RegexMatcher._match uses {c.func.attr}")
    elif arg is None or norm(arg) != "str(value)":
        ck.violation("R-API-RE", f, c, what, construct=f"RegexMatcher._match matches against {norm(arg) if arg is not None else None}")
    else:
        ck.holds("R-API-RE", f, c, what)
    leaves = decision_tree(split_pair_returns(strip_docstring(f.node.body)), resolve="calls")
    key = k_none(norm(c))
    bad = []
    for lf in leaves:
        t = _tuple_ret(lf.value)
        if set(lf.assign) != {key} or t is None:
            bad.append(f"{lf.assign}: {lf.val()}")
        elif (t[0] == "True") != (not lf.assign[key]) or t[1] != "{}":
            bad.append(f"match object is None={lf.assign[key]}: returns {lf.val()}")
    what = "RegexMatcher._match succeeds iff the match object is not None"
    (ck.violation if bad else ck.holds)("R-API-RE", f, f.node, what, **({"construct": f"RegexMatcher._match: {bad[0]}"} if bad else {}))
    pi = ck.repo.func(PAT, "RegexMatcher.__post_init__")
    what = "the regex is compiled from the pattern text as written (re.compile without flags)"
    cc = [x for x in walk_body(pi.node.body) if isinstance(x, ast.Call) and dotted(x.func) == "re.compile"]
    ok = len(cc) == 1 and [norm(a) for a in cc[0].args] == ["self._re_str"] and not cc[0].keywords
    (ck.holds if ok else ck.violation)("R-API-RE", pi, pi.node, what, **({} if ok else {"construct": f"RegexMatcher.__post_init__: {[norm(x) for x in cc]}"}))


def r_node_eq(ck: Checker) -> None:
    for cls, subject in (("ValueMatcher", "self.value"), ("VarMatcher", None)):
        f = ck.repo.func(PAT, f"{cls}._match")
        body = strip_docstring(f.node.body)
        subj = subject or "ctx[self.var_name]"
        leaves = decision_tree(split_pair_returns(body), resolve=True)
        k_node = f"isinstance({subj}, ASTNode)"
        bad = []
        seen_node = False
        for lf in leaves:
            if lf.outcome == "raise":
                continue
            t = _tuple_ret(lf.value)
            if t is None:
                bad.append(f"returns {lf.val()}")
                continue
            if lf.assign.get(k_node) is True:
                seen_node = True
                if t[0] != f"{subj}.is_equal(value)":
                    bad.append(f"node values compared with {t[0]} instead of content equality (is_equal)")
            elif lf.assign.get(k_node) is False:
                eqk = "eq(" + ",".join(sorted((subj, "value"))) + ")"
                if t[0] in (f"{subj} == value", f"value == {subj}"):
                    pass
                elif eqk in lf.assign and t[0] == str(lf.assign[eqk]):
                    pass
                else:
                    bad.append(f"non-node values: returns {t[0]} on {lf.assign}")
            if t[1] != "{}":
                bad.append(f"_match returns captures {t[1]}")
        if not seen_node:
            bad.append("no branch for node values (content equality required)")
        what = f"{cls}._match compares node values by content (is_equal) and everything else with =="
        (ck.violation if bad else ck.holds)("R-NODE-EQ", f, f.node, what, evaluations=len(leaves),
                                            **({"construct": f"{cls}._match: {bad[0]}"} if bad else {}))


def r_zipguard_seq(ck: Checker) -> None:
    f = ck.repo.func(PAT, "SequenceMatcher._match")
    pi = ck.repo.func(PAT, "SequenceMatcher.__post_init__")
    stripped = any(isinstance(c, ast.Call) and dotted(c.func) == "object.__setattr__" and len(c.args) == 3 and is_const(c.args[1], "matchers")
                   and norm(c.args[2]) == "self.matchers[:-1]" for c in walk_body(pi.node.body))
    body = strip_docstring(f.node.body)
    LV, LM = "len(value)", "len(self.matchers)"
    dom = lambda k: (0, 1, 2, 3) if k.startswith("len(") else (True, False)  # noqa: E731
    leaves = decision_tree(body, domain=dom, max_atoms=10)
    k_seq = "isinstance(value, Sequence)"
    k_tail = k_none("self.tail_matcher")
    bad = []
    n = 0
    for lf in leaves:
        a = lf.assign
        if a.get(k_seq) is False:
            continue
        has_tail = (not a[k_tail]) if k_tail in a else (bool(a["self.tail_matcher"]) if "self.tail_matcher" in a else None)
        reaches_zip = any(isinstance(st, ast.For) and isinstance(st.iter, ast.Call) and dotted(st.iter.func) == "zip" for st in lf.stmts)
        lv, lm = a.get(LV), a.get(LM)
        if has_tail is None or lv is None or lm is None:
            if reaches_zip:
                bad.append(f"element-wise zip reached without comparing the lengths ({a})")
            continue
        n += 1
        listed = lm if stripped else lm - 1 if has_tail else lm
        required = (lv >= listed) if has_tail else (lv == lm)
        if reaches_zip != required:
            bad.append(f"tail={has_tail} len(value)={lv} len(matchers)={lm}: {'continues' if reaches_zip else 'rejects'}, expected {'continue' if required else 'reject'}")
        if not reaches_zip:
            t = _tuple_ret(lf.value)
            if t is None or t[0] != "False" or t[1] != "{}":
                bad.append(f"length mismatch returns {lf.val()}")
    what = ("SequenceMatcher._match: without a tail the lengths are equal, with a tail the value has at least the listed element matchers "
            f"(tail {'stripped from' if stripped else 'kept in'} `matchers` by __post_init__) — decided over lengths 0..3")
    if bad:
        ck.violation("R-ZIPGUARD", f, f.node, what, evaluations=n, construct=f"SequenceMatcher._match: {bad[0]}", rows=bad[:4])
    elif n < 8:
        ck.incomplete("R-ZIPGUARD", f, f.node, f"only {n} decided length rows")
    else:
        ck.holds("R-ZIPGUARD", f, f.node, what, evaluations=n)
    # tail capture receives the remaining elements
    tails = [c for c in walk_body(f.node.body) if isinstance(c, ast.Call) and norm(c.func) == "self.tail_matcher.match"]
    what = "the tail capture receives exactly the elements after the listed ones"
    want = "value[len(self.matchers):]" if stripped else "value[len(self.matchers) - 1:]"
    if len(tails) == 1 and norm(tails[0].args[0]) == want:
        ck.holds("R-CAPTURE", f, tails[0], what)
    else:
        ck.violation("R-CAPTURE", f, f.node, what, construct=f"tail matcher receives {[norm(t.args[0]) for t in tails]}, expected {want}")
    # the tail capture is produced whenever a tail matcher is set (also when nothing remains: it then captures an empty sequence)
    body_ = strip_docstring(f.node.body)
    zl = [st for st in body_ if isinstance(st, ast.For)]
    if zl:
        post = body_[body_.index(zl[-1]) + 1:]
        k_t, k_tn = "self.tail_matcher", k_none("self.tail_matcher")
        skipped = None
        n_succ = 0
        for lf in decision_tree(post, resolve=True, domain=lambda k: (0, 1, 2, 3) if k.startswith("len(") else (True, False)):
            t = _tuple_ret(lf.value) if lf.outcome == "return" else None
            if t is None or t[0] != "True":
                continue
            n_succ += 1
            tail_set = True if (lf.assign.get(k_t) is True or lf.assign.get(k_tn) is False) else (False if (lf.assign.get(k_t) is False or lf.assign.get(k_tn) is True) else None)
            called = any(isinstance(c, ast.Call) and norm(c.func) == "self.tail_matcher.match" for st in lf.stmts for c in ast.walk(st))
            if tail_set and not called:
                skipped = {k: v for k, v in lf.assign.items()}
        what = "a trailing `*` capture is produced whenever the sequence matches (an exhausted sequence gives an empty capture)"
        if skipped is not None:
            ck.violation("R-CAPTURE", f, f.node, what, construct=f"SequenceMatcher._match: the tail matcher is set but not consulted when {skipped}")
        elif n_succ:
            ck.holds("R-CAPTURE", f, f.node, what, evaluations=n_succ)
    # element-wise zip pairs matchers with values in order
    zs = [st for st in walk_body(f.node.body) if isinstance(st, ast.For) and isinstance(st.iter, ast.Call) and dotted(st.iter.func) == "zip"]
    what = "elements are matched pairwise in order, a failing element fails the sequence"
    ok = len(zs) == 1 and [norm(x) for x in zs[0].iter.args] == ["self.matchers", "value"]
    if ok:
        inner = decision_tree(zs[0].body)
        ok = any(lf.outcome == "return" and _tuple_ret(lf.value) == ("False", "{}") for lf in inner) and any(lf.outcome == "fall" for lf in inner)
    if ok:
        ck.holds("R-ZIPGUARD", f, f.node, what)
    elif len(zs) == 1 and sorted(norm(x) for x in zs[0].iter.args) == ["self.matchers", "value"] and [norm(x) for x in zs[0].iter.args] != ["self.matchers", "value"] \
            and isinstance(zs[0].target, ast.Tuple) and not any("match(" in norm(st_) and norm(zs[0].target.elts[0]) + ".match(" in norm(st_) for st_ in zs[0].body):
        raise Unsupported("SequenceMatcher._match: pairwise loop with swapped operands", zs[0])
    else:
        raise Unsupported("SequenceMatcher._match: pairwise loop not recognised", f.node)


def r_types_all(ck: Checker) -> None:
    f = ck.repo.func(PAT, "NodeMatcher._match")
    body = strip_docstring(f.node.body)
    first = body[0]
    what = "NodeMatcher._match accepts an instance of any of the listed classes (isinstance over all of self.types)"
    ok = False
    why = norm(first)[:70]
    if isinstance(first, ast.If) and not first.orelse and len(first.body) == 1 and isinstance(first.body[0], ast.Return) \
            and _tuple_ret(first.body[0].value) == ("False", "{}"):
        t = norm(first.test)
        ok = t in ("not isinstance(value, self.types)", "not any((isinstance(value, t) for t in self.types))")
        why = t
    (ck.holds if ok else ck.violation)("R-TYPES-ALL", f, first, what, **({} if ok else {"construct": f"NodeMatcher._match class test: {why}"}))
    # fields: all listed fields must exist and match, in order
    loops = [st for st in body if isinstance(st, ast.For) and norm(st.iter) == "self.content"]
    what = "every listed field must exist and satisfy its spec; captures accumulate"
    ok = False
    if len(loops) != 1:
        raise Unsupported("NodeMatcher._match: no single loop over self.content", f.node)
    if len(loops) == 1:
        inner = decision_tree(loops[0].body)
        unp = [st for st in walk_body(loops[0].body) if isinstance(st, ast.Assign) and isinstance(st.targets[0], ast.Tuple) and len(st.targets[0].elts) == 2
               and isinstance(st.value, ast.Call) and isinstance(st.value.func, ast.Attribute) and st.value.func.attr == "match"]
        if len(unp) != 1:
            raise Unsupported("NodeMatcher._match: the field loop does not unpack one <sub-matcher>.match(...) result", loops[0])
        okv = norm(unp[0].targets[0].elts[0])
        ok = any(lf.outcome == "return" and _tuple_ret(lf.value) == ("False", "{}") and any(k.startswith("hasattr(") and not v for k, v in lf.assign.items()) for lf in inner) \
            and any(lf.outcome == "return" and _tuple_ret(lf.value) == ("False", "{}") and lf.assign.get(okv) is False for lf in inner) \
            and any(lf.outcome in ("fall", "continue") and lf.assign.get(okv) is True for lf in inner) \
            and not any(lf.outcome in ("fall", "continue") and (lf.assign.get(okv) is False or any(k.startswith("hasattr(") and not v for k, v in lf.assign.items())) for lf in inner)
    (ck.holds if ok else ck.violation)("R-TYPES-ALL", f, f.node, what, **({} if ok else {"construct": "NodeMatcher._match: a missing field or a failing field spec does not fail the match"}))
    pi = ck.repo.func(PAT, "NodeMatcher.__post_init__")
    sets = [c for c in walk_body(pi.node.body) if isinstance(c, ast.Call) and dotted(c.func) == "object.__setattr__" and is_const(c.args[1], "types")]
    what = "NodeMatcher keeps all class alternatives (duplicates removed only)"
    ok = len(sets) == 1 and norm(sets[0].args[2]) in ("tuple(set(self.types))", "tuple(dict.fromkeys(self.types))")
    (ck.holds if ok else ck.violation)("R-TYPES-ALL", pi, pi.node, what, **({} if ok else {"construct": f"NodeMatcher.__post_init__: types = {[norm(s.args[2]) for s in sets]}"}))


def r_capture(ck: Checker) -> None:
    f = ck.repo.func(PAT, "BaseMatcher.match")
    body = strip_docstring(f.node.body)
    leaves = decision_tree(body, resolve=True)
    vp, cp = f.node.args.args[1].arg, f.node.args.args[2].arg
    call = [st for st in walk_body(body) if isinstance(st, ast.Assign) and isinstance(st.value, ast.Call) and norm(st.value.func) == "self._match"
            and len(st.value.args) == 2 and norm(st.value.args[0]) == vp]
    if not call or not all(isinstance(c.targets[0], ast.Tuple) and norm(c.targets[0]) == norm(call[0].targets[0]) for c in call):
        raise Unsupported("BaseMatcher.match does not unpack self._match(value, <context>) into one pair of locals", f.node)
    okv, nv = (norm(x) for x in call[0].targets[0].elts)
    bad = []
    for lf in leaves:
        # the context handed down: the caller's, or an empty one when none was given
        passed = [st for st in lf.stmts if isinstance(st, ast.Assign) and isinstance(st.value, ast.Call) and norm(st.value.func) == "self._match"]
        if len(passed) == 1:
            ctxarg = norm(passed[0].value.args[1])
            none_ctx = lf.assign.get(k_none(cp))
            fresh = any(isinstance(st, ast.Assign) and norm(st.targets[0]) == cp and norm(st.value) in ("{}", "dict()") for st in lf.stmts)
            if none_ctx is True and not (ctxarg in ("{}", "dict()") or (ctxarg == cp and fresh)):
                bad.append(f"no context given: _match receives {ctxarg}")
            elif none_ctx is False and ctxarg != cp:
                bad.append(f"context given: _match receives {ctxarg}")
            elif none_ctx is None and ctxarg != cp:
                raise Unsupported(f"BaseMatcher.match passes {ctxarg} as context", f.node)
        a = {k: v for k, v in lf.assign.items() if k != k_none(cp)}
        t = _tuple_ret(lf.value)
        if t is None:
            bad.append(f"returns {lf.val()}")
        elif a.get(okv) is False:
            if t != ("False", "{}"):
                bad.append(f"failure returns {lf.val()} (captures must be empty)")
        elif a.get(okv) is True and a.get(k_none("self.name")) is True:
            if t != ("True", nv):
                bad.append(f"no capture name: returns {lf.val()}")
        elif a.get(okv) is True and a.get(k_none("self.name")) is False:
            if t[0] != "True" or t[1] not in (f"{{self.name: {vp}, **{nv}}}", f"{{**{nv}, self.name: {vp}}}"):
                bad.append(f"named capture returns {lf.val()} (the matched object itself must be captured)")
        else:
            bad.append(f"undecided path {lf.assign}")
    what = "match(): failure -> (False, {}); success -> the sub-captures, plus {name: <the very object matched>} when the matcher is named"
    (ck.violation if bad else ck.holds)("R-CAPTURE", f, f.node, what, evaluations=len(leaves), **({"construct": f"BaseMatcher.match: {bad[0]}"} if bad else {}))
    # every failing return of every _match carries an empty dict
    n = 0
    for g in ck.repo.functions([ck.repo.mod(PAT)]):
        if g.qualname.split(".")[-1] not in ("_match", "match") or g.cls is None or g.cls.name not in MATCHERS:
            continue
        for r in walk_body(g.node.body):
            if isinstance(r, ast.Return):
                t = _tuple_ret(r.value)
                if t and t[0] == "False":
                    n += 1
                    if t[1] != "{}":
                        ck.violation("R-CAPTURE", g, r, "a failing match returns no captures", construct=f"{g.qualname}: returns {norm(r.value)}")
    if n >= 8:
        ck.holds("R-CAPTURE", (ck.repo.mod(PAT).rel, "*._match"), None, "a failing match returns no captures", evaluations=n, failing_returns=n)
    else:
        ck.incomplete("R-CAPTURE", None, None, f"only {n} failing returns found (>= 8 expected)")


def r_ctx_flow(ck: Checker) -> None:
    """The context a composite matcher hands to its sub-matchers contains the context it received (a `$name` inside a nested pattern
    refers to a capture made outside of it).  Dataflow over names: tainted = the context parameter and every local bound to / updated
    with an expression mentioning a tainted name.  Positive pattern: a sub-matcher call whose context argument mentions no tainted name."""
    n = 0
    for qual in ("NodeMatcher._match", "SequenceMatcher._match"):
        f = ck.repo.func(PAT, qual)
        fn = f.node
        cp = fn.args.args[2].arg
        tainted = {cp}

        def mentions(e: ast.AST) -> bool:
            return any(isinstance(x, ast.Name) and x.id in tainted for x in ast.walk(e))
        changed = True
        while changed:
            changed = False
            for st in ast.walk(fn):
                tgt: list[str] = []
                val: ast.AST | None = None
                if isinstance(st, (ast.Assign, ast.AnnAssign, ast.AugAssign)) and st.value is not None:
                    ts = st.targets if isinstance(st, ast.Assign) else [st.target]
                    tgt = [x.id for t in ts for x in ast.walk(t) if isinstance(x, ast.Name)]
                    val = st.value
                elif isinstance(st, ast.NamedExpr):
                    tgt, val = [st.target.id], st.value
                elif isinstance(st, ast.Call) and isinstance(st.func, ast.Attribute) and st.func.attr in ("update", "__ior__") and isinstance(st.func.value, ast.Name) and st.args:
                    tgt, val = [st.func.value.id], st.args[0]
                if val is not None and mentions(val):
                    for t in tgt:
                        if t not in tainted:
                            tainted.add(t)
                            changed = True
        for c in ast.walk(fn):
            if isinstance(c, ast.Call) and isinstance(c.func, ast.Attribute) and c.func.attr in ("match", "_match") and len(c.args) + len(c.keywords) >= 2 \
                    and norm(c.func.value) != "self.pattern":
                arg = c.args[1] if len(c.args) >= 2 else next((k.value for k in c.keywords if k.arg == "ctx"), None)
                if arg is None:
                    continue
                n += 1
                what = f"{qual}: the sub-matcher {norm(c.func.value)[:40]} sees the captures of the enclosing pattern (its context derives from `{cp}`)"
                if mentions(arg):
                    ck.holds("R-CAPTURE", f, c, what)
                else:
                    ck.violation("R-CAPTURE", f, c, what, positive=True,
                                 construct=f"{qual}: {norm(c)[:70]} — the context `{norm(arg)[:30]}` is built without `{cp}`; a `$name` back-reference to an outer capture is undefined there")
    if n < 3:
        ck.incomplete("R-CAPTURE", None, None, f"only {n} sub-matcher calls with a context found (3 confirmed by hand)")


def matcher_classes(ck: Checker) -> list[Cls]:
    return [ck.repo.cls(PAT, n) for n in MATCHERS]


def r_singleton_state(ck: Checker, classes: list[Cls], rule: str = "R-SINGLETON-STATE") -> None:
    n = 0
    for c in classes:
        nw = caching_new(c)
        if nw is None:
            ck.holds(rule, (c.mod.rel, f"class {c.name}"), c.node, f"{c.name} is not a cached singleton (every construction yields its own object)")
            continue
        n += 1
        fields = all_fields(ck.repo, c)
        initable = [f.name for f in fields.values() if f.init]
        what = f"singleton {c.name} (cached __new__) has no init-able dataclass field: __init__ would rewrite the shared object on every construction"
        if initable:
            ck.violation(rule, (c.mod.rel, f"class {c.name}"), nw, what, construct=f"{c.name}: cached instance with init fields {initable}")
        else:
            ck.holds(rule, (c.mod.rel, f"class {c.name}"), nw, what, fields=sorted(fields))
    return None


def r_postinit_idemp(ck: Checker) -> None:
    n = 0
    for c in matcher_classes(ck):
        pi = next((st for st in c.node.body if isinstance(st, ast.FunctionDef) and st.name == "__post_init__"), None)
        if pi is None:
            continue
        n += 1
        fields = all_fields(ck.repo, c)
        writes = [(cc.args[1].value, cc) for cc in walk_body(pi.body) if isinstance(cc, ast.Call) and dotted(cc.func) == "object.__setattr__"
                  and len(cc.args) == 3 and isinstance(cc.args[1], ast.Constant)]
        w_init = {a for a, _ in writes if a in fields and fields[a].init}
        w_non = [(a, cc) for a, cc in writes if a in fields and not fields[a].init]
        what = (f"{c.name}.__post_init__ is faithful under dataclasses.replace: no init=False field is derived from an init field that "
                "__post_init__ itself rewrites (re-running it on the rewritten value would lose the derived field)")
        bad = None
        # conditions guarding each write
        parents: dict[int, ast.AST] = {}
        for p in ast.walk(pi):
            for ch in ast.iter_child_nodes(p):
                parents[id(ch)] = p
        for a, cc in w_non:
            deps = {n_.attr for n_ in ast.walk(cc.args[2]) if isinstance(n_, ast.Attribute) and norm(n_.value) == "self"}
            cur: ast.AST = cc
            while id(cur) in parents:
                cur = parents[id(cur)]
                if isinstance(cur, ast.If):
                    deps |= {n_.attr for n_ in ast.walk(cur.test) if isinstance(n_, ast.Attribute) and norm(n_.value) == "self"}
            hit = deps & w_init
            if hit:
                bad = f"non-init field {a} derived from {sorted(hit)} which __post_init__ rewrites"
        # raising guards that depend on a rewritten init field are equally unfaithful (a valid object is rejected when re-created)
        if bad is None and w_init:
            leaves = decision_tree(strip_docstring(pi.body))
            first_guard_returns = False
            for st in strip_docstring(pi.body):
                if isinstance(st, ast.If) and len(st.body) == 1 and isinstance(st.body[0], ast.Return):
                    first_guard_returns = True
                break
            for r in walk_body(pi.body):
                if isinstance(r, ast.Raise):
                    cur = r
                    deps = set()
                    while id(cur) in parents:
                        cur = parents[id(cur)]
                        if isinstance(cur, ast.If):
                            deps |= {n_.attr for n_ in ast.walk(cur.test) if isinstance(n_, ast.Attribute) and norm(n_.value) == "self"}
                    if deps & w_init and not first_guard_returns:
                        bad = f"raise guarded by {sorted(deps & w_init)} which __post_init__ rewrites (a re-created valid matcher may be rejected)"
        if bad:
            ck.violation("R-POSTINIT-IDEMP", (c.mod.rel, f"{c.name}.__post_init__"), pi, what, construct=f"{c.name}.__post_init__: {bad}")
        else:
            ck.holds("R-POSTINIT-IDEMP", (c.mod.rel, f"{c.name}.__post_init__"), pi, what, init_written=sorted(w_init), non_init_written=[a for a, _ in w_non])
    # replace call sites in the interpreter exist (the rule is relevant)
    rs = [c for f in ck.repo.functions([ck.repo.mod(PAT)]) for c in walk_body(f.node.body) if isinstance(c, ast.Call) and dotted(c.func) in ("replace", "dataclasses.replace")]
    if n < 3 or len(rs) < 2:
        ck.incomplete("R-POSTINIT-IDEMP", None, None, f"{n} matcher __post_init__ methods / {len(rs)} replace call sites (3 / 2 expected)")


def r_pure_match(ck: Checker) -> None:
    mods = [ck.repo.mod(PAT)]
    for c in matcher_classes(ck):
        decs = [d for d in decorators(c.node) if d[0] in ("dataclass", "dataclasses.dataclass")]
        frozen = any(call is not None and is_const(kw(call, "frozen") or ast.Constant(value=False), True) for _, call in decs)
        what = f"matcher class {c.name} is a frozen dataclass"
        (ck.holds if frozen else ck.violation)("R-PURE-MATCH", (c.mod.rel, f"class {c.name}"), c.node, what,
                                               **({} if frozen else {"construct": f"{c.name} is not frozen"}))
    bad = False
    for w in scan_writes(ck.repo, mods):
        if w.func.qualname.split(".")[-1] in ("_match", "match") and w.func.cls is not None:
            bad = True
            ck.violation("R-PURE-MATCH", w.func, w.node, "match results do not depend on earlier matches: no _match/match body stores state",
                         construct=f"{w.func.qualname} writes {w.recv}.{w.attr}")
    for f in ck.repo.functions(mods):
        if f.qualname.split(".")[-1] in ("_match", "match") and f.cls is not None:
            for n in walk_body(f.node.body):
                if isinstance(n, (ast.Global, ast.Nonlocal)):
                    bad = True
                    ck.violation("R-PURE-MATCH", f, n, "no _match/match body stores state", construct=f"{f.qualname}: {norm(n)}")
                if isinstance(n, ast.Subscript) and isinstance(n.ctx, (ast.Store, ast.Del)) and isinstance(n.value, ast.Name) and n.value.id.isupper():
                    bad = True
                    ck.violation("R-PURE-MATCH", f, n, "no _match/match body stores state", construct=f"{f.qualname}: writes global {n.value.id}")
                if isinstance(n, ast.Call) and isinstance(n.func, ast.Attribute) and n.func.attr in ("update", "append", "add", "setdefault", "pop", "clear") \
                        and norm(n.func.value).startswith(("self.", "ctx")):
                    bad = True
                    ck.violation("R-PURE-MATCH", f, n, "no _match/match body mutates the matcher or the caller's context",
                                 construct=f"{f.qualname}: {norm(n)[:50]}")
    if not bad:
        ck.holds("R-PURE-MATCH", (mods[0].rel, "*._match"), None, "no _match/match body stores state or mutates the matcher / the caller's context")
    # the interpreter that compiles a pattern keeps per-pattern state (captures seen): a fresh one per compilation
    what = "every compilation uses its own PatternDefInterpreter (no capture bookkeeping survives a rejected pattern)"
    shared = None
    n_vis = 0
    for g_ in ck.repo.functions([ck.repo.mod(PAT)]):
        for c_ in ast.walk(g_.raw or g_.node):
            if isinstance(c_, ast.Call) and isinstance(c_.func, ast.Attribute) and c_.func.attr == "visit" and g_.qualname.split(".")[0] != "PatternDefInterpreter":
                recv = c_.func.value
                fresh = isinstance(recv, ast.Call) and dotted(recv.func) == "PatternDefInterpreter"
                if isinstance(recv, ast.Name):
                    binds = [st for st in ast.walk(g_.raw or g_.node) if isinstance(st, ast.Assign) and any(isinstance(t_, ast.Name) and t_.id == recv.id for t_ in st.targets)]
                    fresh = bool(binds) and all(isinstance(b_.value, ast.Call) and dotted(b_.value.func) == "PatternDefInterpreter" for b_ in binds)
                n_vis += 1
                if not fresh:
                    shared = (g_, c_, norm(recv))
    if shared:
        ck.violation("R-PURE-MATCH", shared[0], shared[1], what, construct=f"{shared[0].qualname}: patterns are compiled by the shared interpreter {shared[2]}")
    elif n_vis:
        ck.holds("R-PURE-MATCH", (ck.repo.mod(PAT).rel, "*"), None, what, evaluations=n_vis)
    r_cache_discipline(ck)


def r_cache_discipline(ck: Checker, rule: str = "R-PURE-MATCH") -> None:
    fp = ck.repo.func(PAT, "NodeMatcher.from_pattern")
    what = "the pattern cache is keyed by the full pattern text and filled only on the success path"
    p = fp.node.args.args[1].arg
    fbody = strip_docstring(fp.node.body)
    leaves = decision_tree(fbody, try_as_body=True)
    k_hit = f"in({p},_MATCHER_CACHE)"
    bad = None
    n_store = 0
    for st in fbody:  # a rejecting handler must leave, or the failure would reach the store
        if isinstance(st, ast.Try):
            for h in st.handlers:
                if not isinstance(h.body[-1], (ast.Return, ast.Raise)):
                    bad = "a handler of the compilation ladder falls through towards the cache store"
    for lf in leaves:
        sts = [x for x in lf.stmts if isinstance(x, ast.Assign) and isinstance(x.targets[0], ast.Subscript) and norm(x.targets[0].value) == "_MATCHER_CACHE"]
        other = [c for x in lf.stmts for c in ast.walk(x) if isinstance(c, ast.Call) and norm(c.func).startswith("_MATCHER_CACHE.") and c.func.attr in ("setdefault", "update", "__setitem__")]
        if other:
            raise Unsupported(f"from_pattern fills the cache with {norm(other[0])[:40]}", fp.node)
        if k_hit not in lf.assign:
            if sts or lf.outcome == "return":
                bad = bad or "the cache is not consulted first"
            continue
        if lf.assign[k_hit]:
            t = _tuple_ret(lf.value) if lf.outcome == "return" else None
            if sts or t is None or t[0] != f"_MATCHER_CACHE[{p}]":
                bad = bad or f"cache hit: {lf.outcome} {lf.val()}"
            continue
        for x in sts:
            n_store += 1
            if norm(x.targets[0].slice) != p:
                bad = bad or f"cache key is {norm(x.targets[0].slice)[:40]}, not the full pattern text"
            v = x.value
            if isinstance(v, ast.Name):
                defs = [d for d in lf.stmts if isinstance(d, ast.Assign) and any(isinstance(n_, ast.Name) and n_.id == v.id for t_ in d.targets for n_ in ast.walk(t_))]
                from_helper = any(isinstance(d.value, ast.Call) and isinstance(d.value.func, ast.Name) and ck.repo.is_new_helper(fp.mod, d.value.func.id) for d in defs)
                if from_helper and lf.assign.get(k_none(v.id)) is not False:
                    flags = [k for k, val in lf.assign.items() if val is True and k.isidentifier()]
                    if not flags:
                        raise Unsupported("from_pattern: the stored matcher comes from a helper and is not tested before the store", fp.node)
            rt = _tuple_ret(lf.value) if lf.outcome == "return" else None
            if rt is None or rt[0] not in (norm(v), f"_MATCHER_CACHE[{p}]"):
                bad = bad or f"the stored matcher is not the one returned ({lf.val()})"
    if not bad and n_store == 0:
        bad = "no path stores the compiled matcher"
    (ck.holds if not bad else ck.violation)(rule, fp, fp.node, what, **({"evaluations": len(leaves)} if not bad else {"construct": f"from_pattern: {bad}"}))


def r_multi_order(ck: Checker) -> None:
    import copy
    f = ck.repo.func(PAT, "MultiPatternMatcher.match")
    body = strip_docstring(f.node.body)
    what = "MultiPatternMatcher.match tries the rules in the given order and returns the first success"
    np_, rp = f.node.args.args[1].arg, (f.node.args.args[2].arg if len(f.node.args.args) > 2 else f.node.args.kwonlyargs[0].arg)
    table = "self._name_to_matcher"
    problems: list[str] = []
    decided: set[bool] = set()
    info: dict[str, str] = {}

    def hook(lp: ast.stmt, assign: dict) -> object:
        """The search loop is decided (source of the order, body) and replaced by its summary: found -> what the body does on
        the first success, not found -> the loop's else clause."""
        if not isinstance(lp, ast.For):
            raise Unsupported("MultiPatternMatcher.match: while loop", lp)
        rules_none = assign.get(k_none(rp))
        it = lp.iter
        while isinstance(it, ast.IfExp):
            if rules_none is None:
                raise NeedAtom(k_none(rp), lp)
            try:
                it = it.body if Evaluator({k_none(rp): rules_none}).ev(it.test) else it.orelse
            except NeedAtom:
                raise Unsupported(f"MultiPatternMatcher.match iterates {norm(lp.iter)[:60]}", lp)
        own_order = (f"{table}.keys()", table, f"list({table})", f"list({table}.keys())", f"tuple({table})")
        if rules_none is None:
            if norm(it) == rp:
                problems.append("rules=None is not replaced by the registered rule names")
            elif norm(it) in own_order + (f"{table}.items()",):
                problems.append(f"iterates {norm(it)} (registration order) whatever order the caller gives")
            else:
                raise Unsupported(f"MultiPatternMatcher.match iterates {norm(it)[:60]}", lp)
        else:
            decided.add(rules_none)
            if rules_none and norm(it) not in own_order:
                problems.append(f"rules not given: iterates {norm(it)[:50]}")
            if not rules_none and norm(it) != rp:
                if norm(it) in own_order + (f"{table}.items()",):
                    problems.append(f"rules given: iterates {norm(it)} (registration order) instead of the given order")
                else:
                    problems.append(f"rules given: iterates {norm(it)[:50]}")
        if not isinstance(lp.target, ast.Name):
            if problems:
                return [ast.copy_location(ast.Return(value=ast.Constant(value=None)), lp)]
            raise Unsupported("MultiPatternMatcher.match: the loop variable is not a rule name", lp)
        r = lp.target.id
        inner = decision_tree(lp.body, resolve="calls")
        calls = [st for st in walk_body(lp.body) if isinstance(st, ast.Assign) and isinstance(st.targets[0], ast.Tuple) and len(st.targets[0].elts) == 2
                 and isinstance(st.value, ast.Call) and isinstance(st.value.func, ast.Attribute) and st.value.func.attr == "match"]
        if len(calls) != 1:
            raise Unsupported("MultiPatternMatcher.match: the loop does not unpack one <matcher>.match(node) result", lp)
        okv, cap = (norm(x) for x in calls[0].targets[0].elts)
        info.update({"r": r, "cap": cap})
        form = None
        for il in inner:
            done = [st for st in il.stmts if isinstance(st, ast.Assign) and isinstance(st.value, ast.Call) and isinstance(st.value.func, ast.Attribute) and st.value.func.attr == "match"]
            if not done and il.outcome == "continue" and (set(il.assign) - {okv}):
                pass  # decided below (a rule skipped without being tried)
            elif not done or norm(done[0].value) != f"{table}[{r}].match({np_})":
                problems.append(f"rule {r} is matched with {[norm(d.value)[:50] for d in done]}")
            if set(il.assign) - {okv}:
                extra = sorted(set(il.assign) - {okv})
                # a positive pattern: a rule is skipped on an *exact* class test (the matcher itself accepts subclasses: isinstance)
                gates = [k for k in extra if k.startswith("in(") and ".types" in k]
                exact = [k for k in gates if k.startswith("in(type(") or k.startswith("in(" + np_ + ".__class__")]
                if exact and set(gates) == set(extra):
                    if not done and il.outcome == "continue":
                        problems.append(f"a rule is skipped when {exact[0][3:-1].replace(',', ' is not in ', 1)} (exact class): nodes of a subclass never reach the rules "
                                        "written for their base class")
                        continue
                    if not done:
                        raise Unsupported(f"MultiPatternMatcher.match: loop decides on {sorted(il.assign)}", lp)
                    # the rule is tried on this path: the gate only matters where it skips
                else:
                    raise Unsupported(f"MultiPatternMatcher.match: loop decides on {sorted(il.assign)}", lp)
            if okv not in il.assign:
                problems.append("the match result is not consulted")
            elif il.assign[okv]:
                if il.outcome == "return":
                    form = ("return", il.value)
                elif il.outcome == "break":
                    form = ("break", None)
                else:
                    problems.append(f"a matching rule does not end the search: {il.outcome}")
            elif il.outcome not in ("fall", "continue"):
                problems.append(f"a failing rule ends the search: {il.outcome} {il.val()}")
        hit: list[ast.stmt] = [ast.Return(value=copy.deepcopy(form[1]))] if form and form[0] == "return" else [ast.Pass()]
        summary = ast.If(test=ast.Name(id="__some_rule_matches__", ctx=ast.Load()), body=hit, orelse=copy.deepcopy(lp.orelse) or [ast.Pass()])
        ast.copy_location(summary, lp)
        return [ast.fix_missing_locations(summary)]

    leaves = decision_tree(body, resolve=True, loop_hook=hook)
    bad = problems[0] if problems else None
    k_found = "__some_rule_matches__"
    for lf in leaves:
        if bad:
            break
        if set(lf.assign) - {k_none(rp), k_found}:
            raise Unsupported(f"MultiPatternMatcher.match decides on {sorted(lf.assign)}", f.node)
        if k_found not in lf.assign:
            raise Unsupported("MultiPatternMatcher.match: a path does not run the search loop", f.node)
        if lf.assign[k_found]:
            if not (lf.outcome == "return" and _tuple_ret(lf.value) == (info.get("r"), info.get("cap"))):
                bad = f"a matching rule does not return (name, captures): {lf.outcome} {lf.val()}"
        elif lf.outcome not in ("fall", "return") or (lf.outcome == "return" and not (lf.value is None or is_none(lf.value))):
            bad = f"no rule matches: {lf.outcome} {lf.val()}"
    if not bad and decided != {True, False}:
        raise Unsupported("MultiPatternMatcher.match: the rule order source was not decided for both cases", f.node)
    (ck.holds if not bad else ck.violation)("R-MULTI-ORDER", f, f.node, what, **({"evaluations": len(leaves)} if not bad else {"construct": f"MultiPatternMatcher.match: {bad}",
                                                                                                                   "positive": "a rule is skipped when" in bad}))
    g = ck.repo.func(PAT, "MultiPatternMatcher.__init__")
    loops = [st for st in g.node.body if isinstance(st, ast.For)]
    what = "rules are registered in the order given (dict insertion order = definition order)"
    ok = len(loops) == 1 and norm(loops[0].iter) == "pattern_defs" and any(
        isinstance(st, ast.Assign) and norm(st.targets[0]) == "self._name_to_matcher[pattern_name]" for st in walk_body(loops[0].body))
    if ok:
        ck.holds("R-MULTI-ORDER", g, g.node, what)
    elif any(isinstance(c_, ast.Call) and dotted(c_.func) in ("sorted", "set", "frozenset", "reversed") and c_.args and "pattern_defs" in norm(c_.args[0]) for c_ in ast.walk(g.node)):
        ck.violation("R-MULTI-ORDER", g, g.node, what, construct="MultiPatternMatcher.__init__: the definitions are registered in another order than given (sorted / set / reversed over pattern_defs)")
    else:
        raise Unsupported("MultiPatternMatcher.__init__: registration order not recognised", g.node)


def run(ck: Checker) -> None:
    ck.explanation = (
        "Decision trees of the matcher methods: regex API (match, anchored at the start, on str(value)), content equality for node values in "
        "ValueMatcher/VarMatcher, the length relation dominating the element-wise zip of SequenceMatcher (decided over lengths 0..3 with "
        "the tail representation read from __post_init__), isinstance over all class alternatives, capture flow of BaseMatcher.match (the very "
        "object, empty dict on failure), tail slice; singleton state and post-init idempotence under dataclasses.replace; purity of match "
        "bodies and cache discipline; rule order of MultiPatternMatcher. The recursive semantics over all pattern x node pairs is not decided."
    )
    ck.rule_text = "one obligation per decided method / class / site; evaluations = decision leaves or length rows"
    ck.assumptions += ["re.Pattern.match anchors at the start only", "dataclasses.replace re-runs __init__/__post_init__ with the init fields"]
    ck.guard("R-API-RE", lambda: r_api_re(ck))
    ck.guard("R-NODE-EQ", lambda: r_node_eq(ck))
    ck.guard("R-ZIPGUARD", lambda: r_zipguard_seq(ck))
    ck.guard("R-TYPES-ALL", lambda: r_types_all(ck))
    ck.guard("R-CAPTURE", lambda: r_capture(ck))
    ck.guard("R-CAPTURE", lambda: r_ctx_flow(ck))
    from . import state_rules as S8b
    ck.guard("R-MULTI-ORDER", lambda: S8b.r_iter_once(ck, "R-MULTI-ORDER", (PAT,)))  # `rules` may be any iterable, a one-shot one included
    from .c17 import r_every_subtree_visited
    ck.guard("R-PURE-MATCH", lambda: r_every_subtree_visited(ck, "R-PURE-MATCH"))
    from . import state_rules as S_
    ck.guard("R-PURE-MATCH", lambda: S_.r_unstable_key(ck, "R-PURE-MATCH", [(PAT, "BaseMatcher"), (PAT, "NodeMatcher._match"), (PAT, "SequenceMatcher"), (PAT, "ValueMatcher"), (PAT, "RegexMatcher"), (PAT, "VarMatcher"), (PAT, "AnyMatcher"), (PAT, "AlternativeMatcher"), (PAT, "MultiPatternMatcher.match")], "what a pattern matches does not depend on earlier matches"))
    ck.guard("R-SINGLETON-STATE", lambda: r_singleton_state(ck, matcher_classes(ck)))
    ck.guard("R-POSTINIT-IDEMP", lambda: r_postinit_idemp(ck))
    ck.guard("R-PURE-MATCH", lambda: r_pure_match(ck))
    from .c17 import r_regex_text_verbatim
    ck.guard("R-PURE-MATCH", lambda: r_regex_text_verbatim(ck, "R-PURE-MATCH"))  # the regex that is matched is the one the user wrote
    ck.guard("R-MULTI-ORDER", lambda: r_multi_order(ck))
    from .c17 import r_no_memo
    ck.guard("R-NO-MEMO", lambda: r_no_memo(ck))
    from . import state_rules as S
    ck.guard("R-PURE-MATCH", lambda: S.r_stateless(ck, "R-PURE-MATCH", PAT, "MultiPatternMatcher", ("match",), "the first matching rule in the given order wins, whatever was matched before"))  # what a pattern matches must not depend on which names were looked up earlier
    ck.require_count("R-NODE-EQ", 2)
    ck.require_count("R-ZIPGUARD", 2)
    ck.require_count("R-TYPES-ALL", 3)
