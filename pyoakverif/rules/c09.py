"""C09 — Visitor dispatch and transformation follow the rules and keep untouched parts."""
from __future__ import annotations

import ast

from ..astutil import dotted, is_const, is_none, norm, strip_docstring, walk_body
from ..dtree import decision_tree
from ..finite import k_eq, k_is, k_none
from ..report import Checker
from ..srcmodel import Func, Unsupported
from . import templates_rules as T

NODE = "pyoak.node"
VIS = "pyoak.visitor"


def _resolve(fn: ast.FunctionDef, e: ast.expr) -> ast.expr:
    """Follow a local that is assigned exactly once."""
    seen = 0
    while isinstance(e, ast.Name) and seen < 5:
        defs = [st for st in walk_body(fn.body) if isinstance(st, ast.Assign) and len(st.targets) == 1
                and isinstance(st.targets[0], ast.Name) and st.targets[0].id == e.id]
        if len(defs) != 1:
            return e
        e = defs[0].value
        seen += 1
    return e


def _getattr_visit(c: ast.expr, visitor: str) -> str | None:
    """getattr(visitor, f"visit_{X.__name__}", None) -> normalised X"""
    if isinstance(c, ast.Call) and dotted(c.func) == "getattr" and len(c.args) == 3 and norm(c.args[0]) == visitor and is_none(c.args[2]):
        n = c.args[1]
        if isinstance(n, ast.JoinedStr) and len(n.values) == 2 and isinstance(n.values[0], ast.Constant) and n.values[0].value == "visit_" \
                and isinstance(n.values[1], ast.FormattedValue) and isinstance(n.values[1].value, ast.Attribute) and n.values[1].value.attr == "__name__":
            return norm(n.values[1].value.value)
        if isinstance(n, ast.BinOp) and isinstance(n.op, ast.Add) and is_const(n.left, "visit_") and isinstance(n.right, ast.Attribute) and n.right.attr == "__name__":
            return norm(n.right.value)
    return None


FIRST = "__first_visit_method__"


def r_dispatch(ck: Checker, f: Func, rule: str = "R-DISPATCH") -> None:
    """accept(): the method called is decided as a function of (visitor.strict, own class has a visit method, some MRO class
    has one).  The MRO search loop is summarised (first class with a method wins) after its body has been decided; the
    summary is interpreted in place of the loop, so every spelling (break + fallback, return inside the loop, for/else,
    candidate tuple chosen first) reduces to the same table."""
    import copy
    from ..normalize import _Subst
    fn = f.node
    visitor = fn.args.args[1].arg
    body = strip_docstring(fn.body)
    k_strict = f"{visitor}.strict"
    own = ("self.__class__", "type(self)")
    loop_kinds: list[str] = []
    problems: list[str] = []

    def G(cls_txt: str) -> ast.expr:
        return ast.parse(f"getattr({visitor}, f'visit_{{{cls_txt}.__name__}}', None)", mode="eval").body

    def classify(it: ast.expr) -> str | None:
        base = it
        if isinstance(base, (ast.Tuple, ast.List)) and len(base.elts) == 1 and norm(base.elts[0]) in own:
            return "own"
        if isinstance(base, ast.Subscript) and isinstance(base.slice, ast.Slice):
            sl = base.slice
            if sl.step is not None or sl.lower is not None or (sl.upper is not None and norm(sl.upper) != "-1"):
                problems.append(f"MRO sliced with {norm(base.slice)}")
            base = base.value
        if (isinstance(base, ast.Call) and dotted(base.func) in ("getmro", "inspect.getmro") and len(base.args) == 1 and norm(base.args[0]) in own) or \
                (isinstance(base, ast.Attribute) and base.attr == "__mro__" and norm(base.value) in own) or \
                (isinstance(base, ast.Call) and isinstance(base.func, ast.Attribute) and base.func.attr == "mro" and norm(base.func.value) in own):
            return "mro"
        return None

    def hook(lp: ast.stmt, assign: dict) -> object:
        if not isinstance(lp, ast.For) or not isinstance(lp.target, ast.Name):
            raise Unsupported("accept: loop is not a for loop over candidate classes", lp)
        kind = classify(lp.iter)
        if kind is None:
            if "mro" in norm(lp.iter).lower() or "__class__" in norm(lp.iter):
                problems.append(f"non-strict visitor iterates {norm(lp.iter)[:50]} (not the MRO in order)")
                kind = "mro"
            else:
                raise Unsupported(f"accept: candidate classes {norm(lp.iter)[:60]} not recognised", lp)
        loop_kinds.append(kind)
        cv = lp.target.id
        for st in walk_body(lp.body):
            # m = getattr(visitor, f"visit_{c.__name__}", m): every later class that has a method overwrites the match
            if isinstance(st, ast.Assign) and len(st.targets) == 1 and isinstance(st.targets[0], ast.Name) and isinstance(st.value, ast.Call) \
                    and dotted(st.value.func) == "getattr" and len(st.value.args) == 3 and norm(st.value.args[0]) == visitor \
                    and cv in norm(st.value.args[1]) and norm(st.value.args[2]) == st.targets[0].id \
                    and classify(lp.iter) == "mro" and not any(isinstance(x, (ast.Break, ast.Return)) for x in walk_body(lp.body)):
                overwrite.append(f"`{norm(st)[:70]}` in a loop without break: the last class of the MRO that has a visit_<Class> method wins, not the first")
        inner = decision_tree(lp.body, resolve=True)
        key = k_none(norm(G(cv)))
        mv = None
        form = None
        pending_unsupported: list[str] = []
        for il in inner:
            stores0 = [st for st in il.stmts if isinstance(st, ast.Assign) and len(st.targets) == 1 and isinstance(st.targets[0], ast.Name)
                       and _getattr_visit(st.value, visitor) == cv]
            if stores0:
                mv = stores0[-1].targets[0].id
            if il.assign.get(key) is False and il.outcome == "break":
                form = form or "break"
            extra = set(il.assign) - {key}
            if extra:
                benign = all(k in (k_is(cv, "object"), k_eq(cv, "object")) for k in extra)
                if il.outcome in ("break", "return") and il.assign.get(key) is not False and not benign:
                    problems.append(f"MRO loop is left on {sorted(extra)[0]} before a class with a visit_<Class> method was found (later classes are not tried)")
                    continue
                if not benign:
                    pending_unsupported.append(f"accept: candidate loop decides on {sorted(il.assign)}")
                    continue
                if il.outcome in ("break", "return") and il.assign.get(key) is not False:
                    continue  # `object` ends the search: the same as cutting the MRO before it
            stores = [st for st in il.stmts if isinstance(st, ast.Assign) and len(st.targets) == 1 and isinstance(st.targets[0], ast.Name)
                      and _getattr_visit(st.value, visitor) == cv]
            if stores:
                mv = stores[-1].targets[0].id
            if key not in il.assign:
                problems.append("the candidate loop does not test whether the class has a visit method")
                continue
            if not il.assign[key]:  # this class has a method
                if il.outcome == "break":
                    form = "break"
                elif il.outcome == "return" and il.value is not None and norm(il.value) == f"{norm(G(cv))}(self)":
                    form = "return"
                else:
                    problems.append("MRO loop does not stop at the first class that has a visit_<Class> method")
            elif il.outcome not in ("fall", "continue"):
                problems.append("MRO loop stops at a class without a visit method")
        if pending_unsupported and not problems:
            raise Unsupported(pending_unsupported[0], lp)
        if form is None:
            problems.append("MRO loop does not stop at the first class that has a visit_<Class> method")
            form = "break"
        first: ast.expr = G(norm(ast.Name(id="self.__class__"))) if kind == "own" else ast.Name(id=FIRST, ctx=ast.Load())
        found_test: ast.expr = ast.Compare(left=copy.deepcopy(first), ops=[ast.IsNot()], comparators=[ast.Constant(value=None)]) if kind == "own" \
            else ast.Name(id="__some_mro_class_has_method__", ctx=ast.Load())
        hit: list[ast.stmt] = []
        miss: list[ast.stmt] = []
        if mv is not None:
            hit.append(ast.Assign(targets=[ast.Name(id=mv, ctx=ast.Store())], value=copy.deepcopy(first)))
            miss.append(ast.Assign(targets=[ast.Name(id=mv, ctx=ast.Store())], value=ast.Constant(value=None)))  # last lookup gave None
        if form == "return":
            hit.append(ast.Return(value=ast.Call(func=copy.deepcopy(first), args=[ast.Name(id="self", ctx=ast.Load())], keywords=[])))
        miss += copy.deepcopy(lp.orelse)
        summary = ast.If(test=found_test, body=hit or [ast.Pass()], orelse=miss or [ast.Pass()])
        ast.copy_location(summary, lp)
        return [ast.fix_missing_locations(summary)]

    overwrite: list[str] = []
    try:
        leaves = decision_tree(body, resolve=True, loop_hook=hook, preset={k_none(FIRST): False})
    except Unsupported:
        if not overwrite:
            raise
        leaves = []
    if overwrite:
        ck.violation(rule, f, fn, "accept: the MRO is walked in order and the first class with a visit_<Class> method wins", positive=True,
                     construct=f"accept: {overwrite[0]}")
        return
    k_own = k_none(norm(G("self.__class__")))
    k_own2 = k_none(norm(G("type(self)")))
    k_found = "__some_mro_class_has_method__"
    bad = list(problems)
    n_strict = n_loose = 0
    for lf in leaves:
        a = lf.assign
        if k_strict not in a:
            bad.append("dispatch does not branch on visitor.strict")
            continue
        unknown = set(a) - {k_strict, k_own, k_own2, k_found, k_none(FIRST)}
        foreign = [k for k in unknown if k.startswith(f"is(None,getattr({visitor}, f'visit_{{") and k.endswith(".__name__}', None))")]
        if foreign:
            who = foreign[0][len(f"is(None,getattr({visitor}, f'visit_{{"):-len(".__name__}', None))")]
            bad.append(f"{'strict' if a[k_strict] else 'non-strict'} visitor looks up visit_<{who}> (not the own class / the MRO in order)")
            continue
        if unknown:
            # guards that do not influence what is called (trace logging) are tolerated
            same = [l2 for l2 in leaves if all(l2.assign.get(k) == v for k, v in a.items() if k not in unknown) and set(l2.assign) - unknown == set(a) - unknown]
            if len({(l2.outcome, l2.val()) for l2 in same}) > 1:
                raise Unsupported(f"accept decides on {sorted(unknown)}", fn)
        if lf.outcome != "return" or lf.value is None:
            bad.append(f"a path ends with {lf.outcome}")
            continue
        got = norm(lf.value)
        if a[k_strict]:
            n_strict += 1
            if k_found in a:
                bad.append("strict visitor walks the MRO")
                continue
            own_none = a.get(k_own, a.get(k_own2))
            if own_none is None:
                bad.append("strict visitor does not look up visit_<own class>")
            elif own_none and got != f"{visitor}.generic_visit(self)":
                bad.append(f"strict, no method for the own class: returns {got}")
            elif not own_none and got not in (f"{norm(G('self.__class__'))}(self)", f"{norm(G('type(self)'))}(self)"):
                bad.append(f"strict, own method exists: returns {got}")
        else:
            n_loose += 1
            if k_found not in a:
                bad.append("non-strict visitor looks up only the own class" if (k_own in a or k_own2 in a) else "non-strict visitor does not search the MRO")
            elif a[k_found] and got != f"{FIRST}(self)":
                bad.append(f"non-strict, a class of the MRO has a method: returns {got}")
            elif not a[k_found] and got != f"{visitor}.generic_visit(self)":
                bad.append(f"non-strict, no class has a method: returns {got}")
    if not (n_strict and n_loose):
        bad.append("both a strict and a non-strict arm are required")
    what = ("accept branches on visitor.strict: strict looks up only visit_<own class>; otherwise the MRO is walked in order and the "
            "first class with a visit_<Class> method wins")
    what2 = "accept falls back to generic_visit when no method was found and calls the chosen method with the node"
    first_kind = [b for b in bad if "returns" not in b and "ends with" not in b]
    second_kind = [b for b in bad if b not in first_kind]
    if first_kind:
        ck.violation(rule, f, fn, what, evaluations=len(leaves), construct=f"accept: {first_kind[0]}")
    else:
        ck.holds(rule, f, fn, what, evaluations=len(leaves))
    if second_kind:
        ck.violation(rule, f, fn, what2, evaluations=len(leaves), construct=f"accept: {second_kind[0]}")
    else:
        ck.holds(rule, f, fn, what2, evaluations=len(leaves))


def r_transform_path(ck: Checker, f: Func, visit_name: str = "visit", rule: str = "R-TRANSFORM-PATH") -> None:
    fn = f.node
    nodep = fn.args.args[1].arg
    loops = [s for s in fn.body if isinstance(s, ast.For) and isinstance(s.iter, ast.Call) and isinstance(s.iter.func, ast.Attribute)
             and s.iter.func.attr == "get_child_nodes_with_field"]
    if len(loops) != 1:
        raise Unsupported("_transform_children: expected one loop over get_child_nodes_with_field()", fn)
    lp = loops[0]
    if norm(lp.iter.func.value) != nodep or lp.iter.args or lp.iter.keywords:  # type: ignore[union-attr]
        ck.violation(rule, f, lp, "_transform_children iterates the children of the node in declaration order",
                     construct=f"iterates {norm(lp.iter)[:60]}")
        return
    if not (isinstance(lp.target, ast.Tuple) and len(lp.target.elts) == 3):
        raise Unsupported("loop target", lp)
    child, fld, index = (norm(x) for x in lp.target.elts)
    leaves = decision_tree(lp.body, max_atoms=8, resolve=True)
    changes = marked = None
    bad = []
    k_idx = k_none(index)
    for lf in leaves:
        a = lf.assign
        if lf.outcome not in ("fall", "continue"):
            bad.append(f"{a}: leaves the loop by {lf.outcome}")
            continue
        visits = [st for st in lf.stmts if isinstance(st, ast.Assign) and isinstance(st.value, ast.Call) and isinstance(st.value.func, ast.Attribute)
                  and st.value.func.attr in (visit_name, "visit", "transform") and norm(st.value.func.value) == "self"]
        if len(visits) != 1 or [norm(x) for x in visits[0].value.args] != [child]:
            bad.append(f"{a}: the child is not visited exactly once")
            continue
        nc = norm(visits[0].targets[0])
        k_gone = k_none(nc)
        k_same = "is(" + ",".join(sorted((child, nc))) + ")"
        unknown = {k for k in a if k not in (k_idx, k_gone, k_same) and not k.startswith("in(")}
        if unknown:
            eqs = [k for k in unknown if k.startswith("eq(")]
            bad.append(f"path decides on {sorted(unknown)}" + (" (a content-equal replacement is still a change: identity required)" if eqs else ""))
            continue
        appends = [st for st in lf.stmts if isinstance(st, ast.Expr) and isinstance(st.value, ast.Call) and isinstance(st.value.func, ast.Attribute)
                   and st.value.func.attr == "append"]
        marks = [st for st in lf.stmts if isinstance(st, ast.Expr) and isinstance(st.value, ast.Call) and isinstance(st.value.func, ast.Attribute)
                 and st.value.func.attr == "add"]
        sets = [st for st in lf.stmts if isinstance(st, ast.Assign) and isinstance(st.targets[0], ast.Subscript) and st is not visits[0]
                and not (isinstance(st.value, ast.List) and not st.value.elts)]
        for mk in marks:
            marked = norm(mk.value.func.value)  # type: ignore[union-attr]
        if k_idx not in a:
            bad.append(f"{a}: does not distinguish sequence elements from single children")
            continue
        in_seq = not a[k_idx]
        removed = a.get(k_gone)
        same = a.get(k_same)
        if removed is True and same is True:
            continue  # infeasible: the enumerated child is never None (R-PRESENCE), so a None result is not the same object
        if in_seq:
            if removed is None:
                bad.append(f"{a}: a removed sequence element is not distinguished")
                continue
            if removed:
                if appends:
                    bad.append("a removed sequence element is appended")
                if not marks:
                    bad.append("removing a sequence element does not mark the field as changed (the old tuple would be kept)")
            else:
                if len(appends) != 1 or [norm(x) for x in appends[0].value.args] != [nc]:  # type: ignore[union-attr]
                    bad.append("a kept / replaced sequence element is not appended exactly once")
                else:
                    changes = norm(appends[0].value.func.value.value) if isinstance(appends[0].value.func.value, ast.Subscript) else changes  # type: ignore[union-attr]
                if same is None:
                    bad.append("a sequence element is appended without comparing it with the original (identity)")
                elif same and marks:
                    bad.append("an unchanged sequence element marks the field as changed")
                elif not same and not marks:
                    bad.append("a replaced sequence element does not mark the field as changed")
            if sets:
                bad.append(f"sequence path stores {norm(sets[0])[:40]}")
        else:
            if len(sets) != 1 or norm(sets[0].value) != nc or norm(sets[0].targets[0].slice) not in (f"{fld}.name", "fname"):  # type: ignore[union-attr]
                bad.append("a single child field is not set to the visit result")
            if same is None:
                bad.append("a single child is stored without comparing it with the original (identity)")
            elif same and marks:
                bad.append("an unchanged single child marks the field as changed")
            elif not same and not marks:
                bad.append("a replaced / removed single child does not mark the field as changed")
            if appends:
                bad.append("single child path appends")
    what = ("_transform_children loop body: every child is visited once; in a sequence a removed element is dropped and marks the field, a kept "
            "element is appended in order and marks the field iff it is a different object; a single field is set to the result and marked iff different")
    if bad:
        ck.violation(rule, f, lp, what, evaluations=len(leaves), construct=f"_transform_children: {bad[0]}")
    else:
        ck.holds(rule, f, lp, what, evaluations=len(leaves))
    # after the loop: unmarked fields are removed, lists become tuples
    idx = fn.body.index(lp)
    tail = fn.body[idx + 1:]
    what = "_transform_children returns only the fields marked as changed"
    ok_filter = False
    for st in tail:
        if isinstance(st, ast.Assign) and isinstance(st.value, ast.DictComp) and marked:
            dc = st.value
            if len(dc.generators) == 1 and norm(dc.generators[0].iter) == marked and not dc.generators[0].ifs \
                    and norm(dc.key) == norm(dc.generators[0].target) and isinstance(dc.value, ast.Subscript) and norm(dc.value.slice) == norm(dc.key):
                ok_filter = True
            if len(dc.generators) == 1 and len(dc.generators[0].ifs) == 1 and norm(dc.generators[0].ifs[0]).endswith(f" in {marked}"):
                ok_filter = True
        if isinstance(st, ast.For) and marked and any(isinstance(c, ast.Call) and isinstance(c.func, ast.Attribute) and c.func.attr == "pop" for c in walk_body(st.body)):
            if f"- {marked}" in norm(_resolve(fn, st.iter)) or f"not in {marked}" in norm(st):
                ok_filter = True
    if not ok_filter and marked:
        # the result is a comprehension over the marked names
        for r in [x for x in walk_body(tail) if isinstance(x, ast.Return) and isinstance(x.value, ast.DictComp)]:
            dc = r.value
            g0 = dc.generators[0]
            if norm(g0.iter) in (marked, f"sorted({marked})") and norm(dc.key) == norm(g0.target) and not g0.ifs:
                ok_filter = True
    if not ok_filter and marked:
        # the result is a new mapping filled by a loop over the marked names
        rets = [r for r in walk_body(tail) if isinstance(r, ast.Return) and isinstance(r.value, ast.Name)]
        for r in rets:
            rv = r.value.id
            init = [st for st in tail if isinstance(st, (ast.Assign, ast.AnnAssign)) and norm(st.targets[0] if isinstance(st, ast.Assign) else st.target) == rv
                    and isinstance(st.value, ast.Dict) and not st.value.keys]
            fills = [(lp2, st) for lp2 in tail if isinstance(lp2, ast.For) for st in walk_body(lp2.body)
                     if isinstance(st, ast.Assign) and isinstance(st.targets[0], ast.Subscript) and norm(st.targets[0].value) == rv]
            outside = [st for st in walk_body(tail) if isinstance(st, ast.Assign) and isinstance(st.targets[0], ast.Subscript) and norm(st.targets[0].value) == rv
                       and not any(st is s2 for _, s2 in fills)]
            if init and fills and not outside and all(norm(lp2.iter) in (marked, f"sorted({marked})") and norm(st.targets[0].slice) == norm(lp2.target) for lp2, st in fills):
                ok_filter = True
    if not ok_filter:
        rets = [r for r in walk_body(tail) if isinstance(r, ast.Return) and r.value is not None and not (isinstance(r.value, ast.Dict) and not r.value.keys)]
        unfiltered = changes is not None and any(norm(r.value) == changes for r in rets) and not any(
            isinstance(c, ast.Call) and isinstance(c.func, ast.Attribute) and c.func.attr in ("pop", "popitem") or isinstance(c, ast.Delete) for c in walk_body(tail)) \
            and not any(isinstance(st, (ast.Assign, ast.AnnAssign)) and norm(st.targets[0] if isinstance(st, ast.Assign) else st.target) == changes for st in tail)
        if not unfiltered and marked and any(marked in norm(st) for st in tail):
            raise Unsupported("_transform_children: selection of the changed fields not recognised", fn)
    (ck.holds if ok_filter else ck.violation)(rule, f, fn, what, **({} if ok_filter else {"construct": "_transform_children: unmarked fields are not removed from the result"}))
    what = "_transform_children converts rebuilt sequences to tuples"
    ok_tuple = any(isinstance(c, ast.Call) and dotted(c.func) == "tuple" for st in tail for c in walk_body([st]) if isinstance(c, ast.Call)) or \
        any("sequence_type(" in norm(st) for st in tail)
    (ck.holds if ok_tuple else ck.violation)(rule, f, fn, what, **({} if ok_tuple else {"construct": "_transform_children: rebuilt lists are not converted to tuples"}))


def r_ident_return(ck: Checker) -> None:
    f = ck.repo.func(VIS, "ASTTransformVisitor.generic_visit")
    nodep = f.node.args.args[1].arg
    body = strip_docstring(f.node.body)
    first = [s for s in body if isinstance(s, ast.Assign)]
    if not first or norm(first[0].value) != f"self._transform_children({nodep})":
        raise Unsupported("generic_visit does not start with changes = self._transform_children(node)", f.node)
    ch = norm(first[0].targets[0])
    leaves = decision_tree(body)
    bad = []
    for lf in leaves:
        v = lf.val()
        if ch not in lf.assign:
            bad.append("result chosen without looking at the changes")
        elif not lf.assign[ch] and v != nodep:
            bad.append(f"no changes: returns {v} instead of the node itself")
        elif lf.assign[ch] and v not in (f"replace({nodep}, **{ch})", f"dataclasses.replace({nodep}, **{ch})"):
            bad.append(f"changes: returns {v}")
    what = "generic_visit returns the very same node when nothing changed and dataclasses.replace(node, **changes) otherwise"
    if bad:
        ck.violation("R-IDENT-RETURN", f, f.node, what, evaluations=len(leaves), construct=f"generic_visit: {bad[0]}")
    else:
        ck.holds("R-IDENT-RETURN", f, f.node, what, evaluations=len(leaves))
    c = ck.repo.cls(VIS, "ASTTransformVisitor")
    al = [st for st in c.node.body if isinstance(st, ast.Assign) and norm(st.targets[0]) == "transform"]
    what = "transform is the visit method (alias)"
    if len(al) == 1 and norm(al[0].value).endswith(".visit"):
        ck.holds("R-IDENT-RETURN", (c.mod.rel, "class ASTTransformVisitor"), al[0], what)
    else:
        ck.violation("R-IDENT-RETURN", (c.mod.rel, "class ASTTransformVisitor"), c.node, what, construct="transform is not an alias of visit")
    v = ck.repo.func(VIS, "ASTVisitor.visit")
    rets = [s for s in walk_body(v.node.body) if isinstance(s, ast.Return)]
    what = "visit(node) is node.accept(self)"
    if len(rets) == 1 and rets[0].value is not None and norm(rets[0].value) == f"{v.node.args.args[1].arg}.accept(self)":
        ck.holds("R-IDENT-RETURN", v, rets[0], what)
    else:
        ck.violation("R-IDENT-RETURN", v, v.node, what, construct="visit does not delegate to node.accept(self)")


def r_rule_in_iterator(ck: Checker) -> None:
    """A visitor method is user code that may raise anything, StopIteration included.  Called from inside an iterator's __next__
    (map / starmap / filter with the visit callable as function) a StopIteration it raises is taken for the end of the iteration: the
    loop or the list()/tuple()/zip() around it stops silently and a truncated result is returned instead of the exception (positive pattern)."""
    n = 0
    for f in list(ck.repo.functions([ck.repo.mod(VIS)])) + [ck.repo.func(NODE, "ASTNode.accept")]:
        fn = f.raw or f.node
        bad = None
        for c in ast.walk(fn):
            if isinstance(c, ast.Call) and dotted(c.func) in ("map", "itertools.starmap", "starmap", "filter", "itertools.filterfalse", "filterfalse") and c.args:
                fun = _resolve(fn, c.args[0]) if isinstance(fn, ast.FunctionDef) else c.args[0]
                txt = norm(fun)
                if any(isinstance(x, ast.Attribute) and x.attr in ("visit", "generic_visit", "accept", "transform") for x in ast.walk(fun)) \
                        or any(isinstance(x, ast.Call) and dotted(x.func) == "getattr" and "visit" in norm(x) for x in ast.walk(fun)):
                    bad = (c, txt)
        n += 1
        what = f"{f.qualname}: no visitor method runs inside an iterator's __next__ (an exception of a rule, StopIteration included, reaches the caller)"
        if bad:
            ck.violation("R-TRANSFORM-PATH", f, bad[0], what, positive=True,
                         construct=f"{f.qualname}: {norm(bad[0])[:60]} calls {bad[1][:30]} lazily — a StopIteration raised by a rule silently ends the iteration")
        else:
            ck.holds("R-TRANSFORM-PATH", f, f.node, what)


def r_rule_exceptions_pass(ck: Checker) -> None:
    """What a visitor method raises reaches the caller of visit / transform.  Positive pattern: a rule is *called* inside a `try` whose handler
    (AttributeError, LookupError, Exception ... — anything a rule may raise) does not re-raise: the error of a buggy rule is taken for
    "no such method" / "nothing changed" and dispatch or transformation carries on with another method."""
    fs = list(ck.repo.functions([ck.repo.mod(VIS)])) + [ck.repo.func(NODE, "ASTNode.accept")]
    for f in fs:
        fn = f.raw or f.node
        visitor = fn.args.args[1].arg if f.qualname == "ASTNode.accept" and len(fn.args.args) > 1 else None
        method_vars = {st.targets[0].id for st in ast.walk(fn) if isinstance(st, ast.Assign) and len(st.targets) == 1 and isinstance(st.targets[0], ast.Name)
                       and ((isinstance(st.value, ast.Call) and dotted(st.value.func) == "getattr") or (isinstance(st.value, ast.Attribute) and st.value.attr in ("generic_visit", "visit")))}

        def is_rule_call(c: ast.AST) -> bool:
            if not isinstance(c, ast.Call):
                return False
            fu = c.func
            if isinstance(fu, ast.Call) and dotted(fu.func) == "getattr":
                return True
            if isinstance(fu, ast.Name) and fu.id in method_vars:
                return True
            if isinstance(fu, ast.Attribute) and fu.attr in ("visit", "generic_visit", "accept", "transform", "_transform_children") or \
                    (isinstance(fu, ast.Attribute) and fu.attr.startswith("visit_")):
                return True
            return False
        bad = None
        for t in [x for x in ast.walk(fn) if isinstance(x, ast.Try)]:
            if not any(is_rule_call(c) for b in t.body for c in ast.walk(b)):
                continue
            for h in t.handlers:
                if not (h.body and isinstance(h.body[-1], ast.Raise)):
                    bad = (h, norm(h.type)[:40] if h.type is not None else "everything")
        what = f"{f.qualname}: an exception raised by a visitor method reaches the caller (no handler around the call of a rule swallows it)"
        if bad:
            ck.violation("R-DISPATCH", f, bad[0], what, positive=True,
                         construct=f"{f.qualname}: a rule is called inside `try` and `except {bad[1]}` does not re-raise — an error raised inside the rule is swallowed and another method is tried")
        else:
            ck.holds("R-DISPATCH", f, f.node, what)


def run(ck: Checker) -> None:
    ck.explanation = (
        "Decision trees of accept (strict arm / MRO arm / fallback), of the per-child loop body of _transform_children over the atoms "
        "`index is None`, `new_child is None`, `new_child is child` (identity), and of generic_visit; structural checks of the post-loop "
        "filtering and tuple conversion; identity presence test of the generated child enumeration. Input immutability is C10's "
        "effect analysis over visitor.py. User visitor methods are not decided."
    )
    ck.rule_text = "one obligation per decided function; evaluations = decision leaves"
    ck.assumptions += ["inspect.getmro returns the MRO in resolution order"]
    ck.guard("R-DISPATCH", lambda: r_dispatch(ck, ck.repo.func(NODE, "ASTNode.accept")))
    ck.guard("R-TRANSFORM-PATH", lambda: r_transform_path(ck, ck.repo.func(VIS, "ASTTransformVisitor._transform_children")))
    ck.guard("R-IDENT-RETURN", lambda: r_ident_return(ck))
    ck.guard("R-TRANSFORM-PATH", lambda: r_rule_in_iterator(ck))
    ck.guard("R-DISPATCH", lambda: r_rule_exceptions_pass(ck))
    from .c10 import r_field_value_alias_edit
    ck.guard("R-IDENT-RETURN", lambda: r_field_value_alias_edit(ck, "R-IDENT-RETURN", ("pyoak.visitor",)))  # the input tree is never modified
    from . import state_rules as S9
    ck.guard("R-TRANSFORM-PATH", lambda: S9.r_returns_shared(ck, "R-TRANSFORM-PATH", (VIS,)))
    ck.guard("R-REINSTALL", lambda: T.r_reinstall(ck))  # the children that are transformed are the ones the class itself declares
    from . import state_rules as S_
    ck.guard("R-TRANSFORM-PATH", lambda: S_.r_unstable_key(ck, "R-TRANSFORM-PATH", [(NODE, "ASTNode.accept"), (VIS, "ASTVisitor"), (VIS, "ASTTransformVisitor")], "a transformation looks at the tree it is given"))
    ck.guard("R-DISPATCH", lambda: S_.r_class_keyed_memo(ck, "R-DISPATCH", (NODE, VIS), "strict is read from the visitor that is visiting"))
    ck.guard("R-PRESENCE", lambda: T.r_presence(ck))
    ck.require_count("R-DISPATCH", 2)
    ck.require_count("R-TRANSFORM-PATH", 3)
    ck.require_count("R-IDENT-RETURN", 3)
