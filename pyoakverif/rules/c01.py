"""C01 — content_id / is_equal is exactly structural content equality."""
from __future__ import annotations

import ast

from ..astutil import dotted, norm
from ..digest import contributions
from ..dtree import bool_function, strip_casts
from ..effects import scan_writes
from ..report import Checker
from ..srcmodel import Unsupported
from . import digest_rules as D
from . import templates_rules as T

NODE = "pyoak.node"


def r_digest(ck: Checker) -> None:
    f = ck.repo.func(NODE, "ASTNode.__post_init__")
    sinks = contributions(f)
    cs = [s for s in sinks if s.attr == "content_id"]
    if len(cs) != 1:
        raise Unsupported(f"expected one content_id digest sink in __post_init__, found {len(cs)}", f.node)
    D.check_sink(ck, f, cs[0], "content", "R-DIGEST-DEP")
    D.check_encoding(ck, f, cs[0])
    ck.require_count("R-DIGEST-DEP", 10)


def r_cid_own(ck: Checker) -> None:
    """The content_id a node stores is computed from the node: positive pattern — on some path the value stored under "content_id" is the
    `content_id` attribute of another object (a registered twin found by id ...): what happens to be registered decides the content id."""
    f = ck.repo.func(NODE, "ASTNode.__post_init__")
    n = 0
    for fn in [x for x in (f.raw, f.node) if x is not None]:
        for c in ast.walk(fn):
            if isinstance(c, ast.Call) and dotted(c.func) in ("object.__setattr__", "setattr") and len(c.args) == 3 and isinstance(c.args[1], ast.Constant) and c.args[1].value == "content_id":
                n += 1
                vals = [c.args[2]]
                if isinstance(c.args[2], ast.Name):
                    vals = [st.value for st in ast.walk(fn) if isinstance(st, ast.Assign) and any(isinstance(t, ast.Name) and t.id == c.args[2].id for t in st.targets)]
                vals = [b for v in vals for b in ([v.body, v.orelse] if isinstance(v, ast.IfExp) else [v])]
                foreign = [v for v in vals if isinstance(v, ast.Attribute) and v.attr == "content_id" and norm(v.value) != "self"]
                what = "the content_id stored in __post_init__ is computed from the node itself on every path"
                if foreign:
                    ck.violation("R-DIGEST-DEP", f, c, what, positive=True,
                                 construct=f"__post_init__: content_id is taken from {norm(foreign[0])} on some path — the content id of a node depends on what is registered at the time")
                    return
    if n:
        ck.holds("R-DIGEST-DEP", f, f.node, "the content_id stored in __post_init__ is never copied from another object")


def r_isequal_ids_only(ck: Checker) -> None:
    """is_equal decides from the two classes and the two content ids, nothing else.  Positive pattern: is_equal (helpers of later origin
    followed) walks properties or children itself — a hand-written comparison next to the digest is a second definition of content
    equality, and any difference between the two is a violation of "content_id equality is content equality"."""
    f = ck.repo.func(NODE, "ASTNode.is_equal")
    from .state_rules import _raw_functions
    m_ = ck.repo.mod(NODE)
    helpers = {q: fn for q, fn, _c in _raw_functions(m_) if ck.repo.is_new_helper(m_, q)}
    todo = [f.raw or f.node]
    seen: set[int] = set()
    bad = None
    while todo:
        fn = todo.pop()
        if id(fn) in seen:
            continue
        seen.add(id(fn))
        for c in ast.walk(fn):
            if isinstance(c, ast.Call):
                nm = (dotted(c.func) or "").split(".")[-1]
                if nm in ("get_properties", "get_property_fields", "get_child_nodes", "get_child_nodes_with_field", "iter_child_fields", "dfs", "bfs", "to_properties_dict") or \
                        (isinstance(c.func, ast.Attribute) and c.func.attr == "children"):
                    bad = c
                if nm in helpers:
                    todo.append(helpers[nm])
            elif isinstance(c, ast.Attribute) and c.attr == "children":
                bad = c
    what = "is_equal compares the two classes and the two content ids only (one definition of content equality: the digest)"
    if bad is not None:
        ck.violation("R-ISEQUAL-FORM", f, bad, what, positive=True,
                     construct=f"is_equal reaches {norm(bad)[:50]}: a hand-written structural comparison decides on some path instead of the content ids")
    else:
        ck.holds("R-ISEQUAL-FORM", f, f.node, what)


def r_write_once(ck: Checker) -> None:
    ws = [w for w in scan_writes(ck.repo, ck.repo.nonlegacy()) if w.attr == "content_id"]
    what = "content_id is stored exactly once, on self, in ASTNode.__post_init__"
    ok = [w for w in ws if w.func.qualname == "ASTNode.__post_init__" and w.func.mod.name == NODE and w.recv == "self"]
    for w in ws:
        if w in ok:
            continue
        ck.violation("R-CID-WRITE-ONCE", w.func, w.node, what, construct=f"content_id written in {w.func.qualname} on {w.recv}")
    if len(ok) == 1:
        ck.holds("R-CID-WRITE-ONCE", ok[0].func, ok[0].node, what, writes=len(ws))
    elif len(ok) == 0:
        ck.incomplete("R-CID-WRITE-ONCE", None, None, "no content_id store found in ASTNode.__post_init__")
    else:
        ck.violation("R-CID-WRITE-ONCE", ok[1].func, ok[1].node, what, construct="content_id stored more than once in __post_init__")


def r_isequal(ck: Checker) -> None:
    f = ck.repo.func(NODE, "ASTNode.is_equal")
    body = strip_casts(f.node.body)
    rows = bool_function(body)
    type_same = ["is(type(other),type(self))", "is(other.__class__,self.__class__)", "eq(type(other),type(self))",
                 "eq(other.__class__,self.__class__)"]
    cid = "eq(other.content_id,self.content_id)"
    what = "is_equal(other) is: type(other) is type(self) and content_ids are equal; the type test comes first"
    atoms = set()
    for a, v, lf in rows:
        atoms |= set(a)
    tkeys = [k for k in atoms if k in type_same]
    extra = atoms - set(tkeys) - {cid}
    if extra or len(tkeys) != 1:
        ck.violation("R-ISEQUAL-FORM", f, f.node, what, construct=f"is_equal decides on {sorted(atoms)}")
        return
    t = tkeys[0]
    bad = []
    for a, v, lf in rows:
        exp = a.get(t, None)
        if v is None or isinstance(v, str):
            bad.append({"row": a, "outcome": str(v)})
            continue
        if t not in a:
            bad.append({"row": a, "problem": "result does not depend on the type test"})
            continue
        expected = a[t] and a.get(cid, False) if a[t] else False
        if bool(v) != bool(expected):
            bad.append({"row": a, "value": bool(v)})
        if list(a)[0] != t:
            bad.append({"row": a, "problem": "content_id of other read before the type test"})
    if bad:
        ck.violation("R-ISEQUAL-FORM", f, f.node, what, evaluations=len(rows), construct=f"is_equal formula wrong: {bad[0]}", rows=bad[:4])
    else:
        ck.holds("R-ISEQUAL-FORM", f, f.node, what, evaluations=len(rows), atoms=sorted(atoms))


def run(ck: Checker) -> None:
    ck.explanation = (
        "Dependence analysis of the digest input built in ASTNode.__post_init__: the ordered contribution list of the string that "
        "flows into the content_id digest is recovered (literals, dynamic parts with conversion / format spec, loops with their "
        "iteration source and flags resolved against the accessor signature) and compared with the property's own required / forbidden "
        "source table; unique decodability and canonical rendering of the value segment; write-once store; decision tree of is_equal; "
        "identity presence test of the generated child enumeration. Collision resistance of blake2b is assumed."
    )
    ck.rule_text = "one obligation per required / forbidden source, per encoding segment, per decision-tree function"
    ck.assumptions += ["blake2b behaves as an injective function on the inputs compared",
                       "str() of user-defined property classes is injective (not decided)"]
    ck.guard("R-DIGEST-DEP", lambda: r_digest(ck))
    ck.guard("R-CID-WRITE-ONCE", lambda: r_write_once(ck))
    from .c10 import r_field_writes
    ck.guard("R-CID-WRITE-ONCE", lambda: r_field_writes(ck, "R-CID-WRITE-ONCE"))
    ck.guard("R-ISEQUAL-FORM", lambda: r_isequal(ck))
    ck.guard("R-ISEQUAL-FORM", lambda: r_isequal_ids_only(ck))
    ck.guard("R-DIGEST-DEP", lambda: r_cid_own(ck))
    ck.guard("R-PRESENCE", lambda: T.r_presence(ck))
    # the digest reads get_properties(skip_id, skip_origin, skip_content_id all True) and get_child_nodes_with_field: the place of the
    # base properties in the name order is irrelevant to it
    ck.guard("R-ORDER-KEY", lambda: T.r_order_key(ck, gens=("_gen_get_properties_func", "_gen_get_child_nodes_with_field_func"), base_props=False))
    ck.guard("R-ORDER-KEY", lambda: T.r_gen_stateless(ck))
    ck.guard("R-ENUM-SHAPE", lambda: T.r_enum_shape(ck))  # every position of a child sequence contributes (the same object twice is two positions)
    from . import state_rules as S_
    ck.guard("R-DIGEST-DEP", lambda: S_.r_unstable_key(ck, "R-DIGEST-DEP", [(NODE, "ASTNode.__post_init__"), (NODE, "ASTNode.is_equal")], "content_id is a function of the node's present content"))
    ck.guard("R-FLAGS-TT", lambda: T.r_flags_tt(ck))
    ck.guard("R-TYPES-CACHE", lambda: T.r_types_cache(ck))
    ck.guard("R-REINSTALL", lambda: T.r_reinstall(ck))  # every class hashes its own fields (no accessor inherited from a base class)  # the digest is computed from the per-class field tables
