"""Decision procedure for guards over finite domains.

A guard lifted from the source (an ``ast.expr``) is evaluated under every
assignment of its *atoms*.  An atom is a maximal sub-expression the evaluator
does not interpret structurally (a name, an attribute, a call, an identity or
equality test between such terms).  Atoms are keyed canonically so that
``x is not None`` / ``not x is None`` / ``None is not x`` share one atom with
opposite polarity.

This is propositional / small-integer evaluation of a formula, not an
execution of repository code: no repository function is ever called.
"""
from __future__ import annotations

import ast
import itertools
from typing import Any, Callable, Iterable

from .astutil import dotted, norm
from .srcmodel import Unsupported


class NeedAtom(Exception):
    def __init__(self, key: str, node: ast.AST) -> None:
        super().__init__(key)
        self.key = key
        self.node = node


def canon_cmp(node: ast.Compare) -> tuple[str, bool] | None:
    """Canonical key and polarity for a single-operator identity/equality/membership test."""
    if len(node.ops) != 1:
        return None
    op = node.ops[0]
    a, b = norm(node.left), norm(node.comparators[0])
    if isinstance(op, (ast.Is, ast.IsNot)):
        x, y = sorted((a, b))
        return f"is({x},{y})", isinstance(op, ast.Is)
    if isinstance(op, (ast.Eq, ast.NotEq)):
        x, y = sorted((a, b))
        return f"eq({x},{y})", isinstance(op, ast.Eq)
    if isinstance(op, (ast.In, ast.NotIn)):
        return f"in({a},{b})", isinstance(op, ast.In)
    return None


class Evaluator:
    """Evaluate an expression given values for atoms.

    ``assign`` maps atom keys to values.  Keys are: canonical comparison keys
    (see canon_cmp) or the normalised source text of a term.  Missing atoms
    raise NeedAtom (used for atom discovery).
    """

    def __init__(self, assign: dict[str, Any]) -> None:
        self.assign = assign

    def term(self, e: ast.AST) -> Any:
        k = norm(e)
        if k in self.assign:
            return self.assign[k]
        raise NeedAtom(k, e)

    def ev(self, e: ast.AST) -> Any:
        k = norm(e)
        if k in self.assign:
            return self.assign[k]
        if isinstance(e, ast.Constant):
            return e.value
        if isinstance(e, ast.BoolOp):
            if isinstance(e.op, ast.And):
                v: Any = True
                for x in e.values:
                    v = self.ev(x)
                    if not v:
                        return v
                return v
            v = False
            for x in e.values:
                v = self.ev(x)
                if v:
                    return v
            return v
        if isinstance(e, ast.UnaryOp):
            if isinstance(e.op, ast.Not):
                return not self.ev(e.operand)
            if isinstance(e.op, ast.USub):
                return -self.ev(e.operand)
            raise Unsupported(f"unary operator in guard: {k}", e)
        if isinstance(e, ast.IfExp):
            return self.ev(e.body) if self.ev(e.test) else self.ev(e.orelse)
        if isinstance(e, ast.BinOp) and isinstance(e.op, (ast.Add, ast.Sub)):
            l, r = self.ev(e.left), self.ev(e.right)
            return l + r if isinstance(e.op, ast.Add) else l - r
        if isinstance(e, ast.NamedExpr):
            return self.ev(e.value)
        if isinstance(e, ast.Compare):
            if len(e.ops) == 1 and isinstance(e.ops[0], (ast.Is, ast.IsNot)):
                # a freshly constructed object (Capitalised callee) or a literal container is not None
                l_, r_ = e.left, e.comparators[0]
                for x_, y_ in ((l_, r_), (r_, l_)):
                    if isinstance(y_, ast.Constant) and y_.value is None and (
                            (isinstance(x_, ast.Call) and (dotted(x_.func) or "").split(".")[-1][:1].isupper() and not (dotted(x_.func) or "").split(".")[-1].isupper())
                            or isinstance(x_, (ast.Tuple, ast.List, ast.Dict, ast.Set, ast.JoinedStr))):
                        return isinstance(e.ops[0], ast.IsNot)
            if len(e.ops) == 1:
                c = canon_cmp(e)
                if c is not None and c[0] in self.assign:
                    return self.assign[c[0]] == c[1]
            # try to evaluate operands
            try:
                left = self.ev(e.left)
                res = True
                for op, rhs in zip(e.ops, e.comparators):
                    right = self.ev(rhs)
                    res = res and _cmp(op, left, right)
                    left = right
                return res
            except NeedAtom as na:
                if na.key.startswith("len("):
                    raise  # integer-valued term: the rule supplies its domain
                if len(e.ops) == 1:
                    c = canon_cmp(e)
                    if c is not None:
                        raise NeedAtom(c[0], e)
                raise
        if isinstance(e, (ast.Tuple, ast.List, ast.Set)) and all(isinstance(x, ast.Constant) for x in e.elts):
            return tuple(x.value for x in e.elts)  # literal collection of constants (membership tests)
        if isinstance(e, ast.Dict) and all(isinstance(k_, ast.Constant) for k_ in e.keys):
            return _LazyDict(self, e)  # literal lookup table: values are evaluated only when selected
        if isinstance(e, ast.Subscript) and isinstance(e.value, ast.Dict) and all(isinstance(k_, ast.Constant) for k_ in e.value.keys):
            return _LazyDict(self, e.value)[self.ev(e.slice)]
        if isinstance(e, ast.Call) and isinstance(e.func, ast.Attribute) and e.func.attr == "get" and isinstance(e.func.value, ast.Dict) \
                and all(isinstance(k_, ast.Constant) for k_ in e.func.value.keys) and 1 <= len(e.args) <= 2 and not e.keywords:
            d_ = _LazyDict(self, e.func.value)
            key_ = self.ev(e.args[0])
            if key_ in d_:
                return d_[key_]
            return self.ev(e.args[1]) if len(e.args) == 2 else None
        if isinstance(e, ast.Call) and isinstance(e.func, ast.Name) and e.func.id == "bool" and len(e.args) == 1 and not e.keywords:
            return bool(self.ev(e.args[0]))
        if isinstance(e, ast.Call) and isinstance(e.func, ast.Name) and e.func.id in ("isinstance", "issubclass") and len(e.args) == 2 \
                and isinstance(e.args[1], ast.Tuple) and e.args[1].elts and not e.keywords:
            # isinstance(x, (A, B))  ==  isinstance(x, A) or isinstance(x, B)
            for t in e.args[1].elts:
                if self.ev(ast.copy_location(ast.Call(func=e.func, args=[e.args[0], t], keywords=[]), e)):
                    return True
            return False
        if isinstance(e, (ast.Name, ast.Attribute, ast.Call, ast.Subscript)):
            raise NeedAtom(k, e)
        raise Unsupported(f"expression kind {type(e).__name__} in guard: {k}", e)


class _LazyDict:
    """A literal mapping with constant keys inside a guard: membership is decided on the keys, a value is evaluated on selection."""

    def __init__(self, ev: "Evaluator", node: ast.Dict) -> None:
        self.ev, self.node = ev, node
        self.keys = [k.value for k in node.keys]  # type: ignore[union-attr]

    def __contains__(self, k: Any) -> bool:
        return k in self.keys

    def __getitem__(self, k: Any) -> Any:
        if k not in self.keys:
            raise Unsupported(f"lookup of {k!r} in a literal table without that key", self.node)
        return self.ev.ev(self.node.values[len(self.keys) - 1 - self.keys[::-1].index(k)])


def _cmp(op: ast.cmpop, a: Any, b: Any) -> bool:
    if isinstance(op, ast.Is):
        return a is b
    if isinstance(op, ast.IsNot):
        return a is not b
    if isinstance(op, ast.Eq):
        return a == b
    if isinstance(op, ast.NotEq):
        return a != b
    if isinstance(op, ast.Lt):
        return a < b
    if isinstance(op, ast.LtE):
        return a <= b
    if isinstance(op, ast.Gt):
        return a > b
    if isinstance(op, ast.GtE):
        return a >= b
    if isinstance(op, ast.In):
        return a in b
    if isinstance(op, ast.NotIn):
        return a not in b
    raise Unsupported("comparison operator")


def discover_atoms(e: ast.AST, preset: dict[str, Any] | None = None, limit: int = 12) -> list[str]:
    """Atom keys a guard needs (discovered by repeated evaluation with NeedAtom).

    Both truth values of every discovered atom are explored so that atoms
    behind short-circuits are found as well."""
    found: list[str] = []

    def rec(assign: dict[str, Any]) -> None:
        try:
            Evaluator(assign).ev(e)
        except NeedAtom as n:
            if n.key not in found:
                found.append(n.key)
                if len(found) > limit:
                    raise Unsupported(f"more than {limit} atoms in guard {norm(e)}", e)
            for v in (True, False):
                a2 = dict(assign)
                a2[n.key] = v
                rec(a2)

    rec(dict(preset or {}))
    return found


def truth_table(
    e: ast.AST,
    atoms: dict[str, Iterable[Any]],
    feasible: Callable[[dict[str, Any]], bool] | None = None,
) -> list[tuple[dict[str, Any], Any]]:
    """All rows (assignment, value) of the guard over the product of atom domains."""
    keys = list(atoms)
    rows = []
    for combo in itertools.product(*[list(atoms[k]) for k in keys]):
        a = dict(zip(keys, combo))
        if feasible is not None and not feasible(a):
            continue
        rows.append((a, Evaluator(a).ev(e)))
    return rows


def equivalent(
    e: ast.AST,
    oracle: Callable[[dict[str, Any]], bool],
    atoms: dict[str, Iterable[Any]],
    feasible: Callable[[dict[str, Any]], bool] | None = None,
) -> tuple[int, list[dict[str, Any]]]:
    """Compare guard and oracle row by row.  Returns (#rows, differing rows)."""
    rows = truth_table(e, atoms, feasible)
    bad = []
    for a, v in rows:
        if bool(v) != bool(oracle(a)):
            r = dict(a)
            r["__guard"] = bool(v)
            r["__oracle"] = bool(oracle(a))
            bad.append(r)
    return len(rows), bad


def k_is(a: str, b: str) -> str:
    """Canonical key of `a is b` (operands sorted, as canon_cmp does)."""
    x, y = sorted((a, b))
    return f"is({x},{y})"


def k_eq(a: str, b: str) -> str:
    x, y = sorted((a, b))
    return f"eq({x},{y})"


def k_none(a: str) -> str:
    return k_is("None", a)
