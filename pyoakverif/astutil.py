"""Small AST helpers shared by the rules."""
from __future__ import annotations

import ast
from typing import Iterable, Iterator

FUNC_TYPES = (ast.FunctionDef, ast.AsyncFunctionDef, ast.Lambda, ast.ClassDef)


def norm(node: ast.AST) -> str:
    """Normalised source text of a node (formatting, comments, parentheses removed)."""
    return ast.unparse(node)


def dotted(node: ast.AST) -> str | None:
    if isinstance(node, ast.Name):
        return node.id
    if isinstance(node, ast.Attribute):
        b = dotted(node.value)
        return None if b is None else f"{b}.{node.attr}"
    return None


def root_name(node: ast.AST) -> str | None:
    """Name at the root of an attribute/subscript/call chain: a.b[c].d() -> a"""
    while True:
        if isinstance(node, ast.Name):
            return node.id
        if isinstance(node, ast.Attribute):
            node = node.value
        elif isinstance(node, ast.Subscript):
            node = node.value
        elif isinstance(node, ast.Call):
            node = node.func
        elif isinstance(node, ast.Starred):
            node = node.value
        else:
            return None


def walk_local(node: ast.AST, include_self: bool = True) -> Iterator[ast.AST]:
    """ast.walk that does not descend into nested function/class/lambda definitions."""
    stack = [node] if include_self else list(ast.iter_child_nodes(node))
    first = True
    while stack:
        n = stack.pop()
        yield n
        if isinstance(n, FUNC_TYPES) and not (first and include_self and n is node):
            first = False
            continue
        first = False
        stack.extend(ast.iter_child_nodes(n))


def walk_body(stmts: Iterable[ast.stmt]) -> Iterator[ast.AST]:
    for st in stmts:
        if isinstance(st, FUNC_TYPES):
            yield st
            continue
        yield from walk_local(st)


def func_body_nodes(fn: ast.FunctionDef | ast.AsyncFunctionDef) -> Iterator[ast.AST]:
    """All nodes of a function body, not descending into nested defs."""
    return walk_body(fn.body)


def calls(node_or_body) -> Iterator[ast.Call]:
    it = walk_body(node_or_body) if isinstance(node_or_body, list) else walk_local(node_or_body)
    for n in it:
        if isinstance(n, ast.Call):
            yield n


def call_name(c: ast.Call) -> str | None:
    return dotted(c.func)


def is_name(node: ast.AST, name: str) -> bool:
    return isinstance(node, ast.Name) and node.id == name


def is_const(node: ast.AST, value=...) -> bool:
    if not isinstance(node, ast.Constant):
        return False
    return True if value is ... else (node.value == value and type(node.value) is type(value))


def is_none(node: ast.AST) -> bool:
    return isinstance(node, ast.Constant) and node.value is None


def kw(c: ast.Call, name: str) -> ast.expr | None:
    for k in c.keywords:
        if k.arg == name:
            return k.value
    return None


def strip_docstring(body: list[ast.stmt]) -> list[ast.stmt]:
    if body and isinstance(body[0], ast.Expr) and isinstance(body[0].value, ast.Constant) and isinstance(body[0].value.value, str):
        return body[1:]
    return body


def assigned_names(target: ast.AST) -> list[str]:
    out = []
    for n in ast.walk(target):
        if isinstance(n, ast.Name):
            out.append(n.id)
    return out


def stmt_line(node: ast.AST) -> int:
    return getattr(node, "lineno", 0)


def unwrap_cast(e: ast.expr) -> ast.expr:
    """cast(T, x) / t.cast(T, x) -> x ; list(x)/tuple(x) are NOT unwrapped here."""
    while isinstance(e, ast.Call) and dotted(e.func) in ("cast", "t.cast", "typing.cast") and len(e.args) == 2:
        e = e.args[1]
    return e


def decorators(node: ast.ClassDef | ast.FunctionDef) -> list[tuple[str, ast.Call | None]]:
    out = []
    for d in node.decorator_list:
        if isinstance(d, ast.Call):
            out.append((dotted(d.func) or norm(d.func), d))
        else:
            out.append((dotted(d) or norm(d), None))
    return out


class _Alpha(ast.NodeTransformer):
    """Rename the variables bound by comprehensions / lambdas to positional names."""

    def __init__(self) -> None:
        self.env: list[dict[str, str]] = []
        self.n = 0

    def _bind(self, target: ast.AST, scope: dict[str, str]) -> None:
        for x in ast.walk(target):
            if isinstance(x, ast.Name):
                scope.setdefault(x.id, f"_b{self.n}")
                self.n += 1

    def _comp(self, node):
        import copy
        scope: dict[str, str] = {}
        self.env.append(scope)
        gens = []
        for g in node.generators:
            it = self.visit(g.iter)
            self._bind(g.target, scope)
            gens.append(ast.comprehension(target=self.visit(g.target), iter=it, ifs=[self.visit(i) for i in g.ifs], is_async=g.is_async))
        new = copy.copy(node)
        new.generators = gens
        if isinstance(node, ast.DictComp):
            new.key, new.value = self.visit(node.key), self.visit(node.value)
        else:
            new.elt = self.visit(node.elt)
        self.env.pop()
        return new

    visit_ListComp = visit_SetComp = visit_GeneratorExp = visit_DictComp = _comp

    def visit_Lambda(self, node: ast.Lambda):
        import copy
        scope: dict[str, str] = {}
        for a in node.args.args:
            scope[a.arg] = f"_b{self.n}"
            self.n += 1
        self.env.append(scope)
        new = copy.deepcopy(node)
        for a in new.args.args:
            a.arg = scope[a.arg]
        new.body = self.visit(node.body)
        self.env.pop()
        return new

    def visit_Name(self, node: ast.Name):
        for scope in reversed(self.env):
            if node.id in scope:
                return ast.Name(id=scope[node.id], ctx=node.ctx)
        return node


def alpha(node: ast.AST) -> str:
    """norm() modulo the names of comprehension / lambda variables; a list comprehension that is only
    iterated (argument of tuple / list / set / sorted / any / all / sum / join) reads as a generator."""
    import copy
    t = _Alpha().visit(copy.deepcopy(node))
    for c in ast.walk(t):
        if isinstance(c, ast.Call) and len(c.args) >= 1 and isinstance(c.args[0], ast.ListComp) \
                and (dotted(c.func) in ("tuple", "list", "set", "frozenset", "sorted", "any", "all", "sum", "min", "max", "dict")
                     or (isinstance(c.func, ast.Attribute) and c.func.attr in ("join", "extend", "update"))):
            c.args[0] = ast.GeneratorExp(elt=c.args[0].elt, generators=c.args[0].generators)
    return norm(ast.fix_missing_locations(t))


def comp_as_loop(st: ast.stmt) -> ast.For | None:
    """``X = {K: V for T in IT if C}`` (or a list comprehension) read back as the loop that fills X -- the form rules that reason
    about loop bodies use.  Single generator only."""
    import copy
    if not (isinstance(st, ast.Assign) and len(st.targets) == 1 and isinstance(st.targets[0], ast.Name) and isinstance(st.value, (ast.DictComp, ast.ListComp))
            and len(st.value.generators) == 1):
        return None
    x = st.targets[0].id
    c = st.value
    g = c.generators[0]
    if isinstance(c, ast.DictComp):
        store: ast.stmt = ast.Assign(targets=[ast.Subscript(value=ast.Name(id=x, ctx=ast.Load()), slice=copy.deepcopy(c.key), ctx=ast.Store())], value=copy.deepcopy(c.value))
    else:
        store = ast.Expr(value=ast.Call(func=ast.Attribute(value=ast.Name(id=x, ctx=ast.Load()), attr="append", ctx=ast.Load()), args=[copy.deepcopy(c.elt)], keywords=[]))
    body: list[ast.stmt] = [store]
    for cond in reversed(g.ifs):
        body = [ast.If(test=copy.deepcopy(cond), body=body, orelse=[])]
    lp = ast.For(target=copy.deepcopy(g.target), iter=copy.deepcopy(g.iter), body=body, orelse=[])
    ast.copy_location(lp, st)
    return ast.fix_missing_locations(lp)
