"""Typed view of the package through mypy used as a library (thorough tier only).

mypy is the repository's own dev dependency and present in /venv.  The build is
done in-process with ``preserve_asts`` / ``export_types``; a hand-written walker
(TraverserVisitor cannot be subclassed: it is a compiled trait) collects, per
module, the inferred type of every expression by (line, column).
"""
from __future__ import annotations

import os
import sys
from dataclasses import dataclass
from pathlib import Path

from .srcmodel import Repo, Unsupported

SKIP_ATTRS = {"node", "info", "type", "def_var", "original_def", "var", "unanalyzed_type", "type_annotation", "fullname", "names", "defs_",
              "impl", "analyzed", "method_type", "local_nodes", "alias_tvars", "target", "upper_bound", "values", "default"}


@dataclass
class TypedModule:
    name: str
    expr_types: dict[tuple[int, int, str], str]  # (line, col, kind) -> type string


class TypedRepo:
    def __init__(self, repo: Repo) -> None:
        self.repo = repo
        self.errors: list[str] = []
        self.modules: dict[str, TypedModule] = {}
        self._build()

    def _build(self) -> None:
        try:
            from mypy import build
            from mypy.find_sources import create_source_list
            from mypy.nodes import Expression, Node
            from mypy.options import Options
        except Exception as e:  # pragma: no cover
            raise Unsupported(f"mypy is not importable in this environment: {e}")
        cwd = os.getcwd()
        os.chdir(self.repo.root)
        try:
            opts = Options()
            opts.preserve_asts = True
            opts.export_types = True
            opts.incremental = False
            opts.cache_dir = os.devnull
            opts.ignore_missing_imports = True
            opts.follow_imports = "silent"
            srcs = create_source_list(["src/pyoak"], opts)
            res = build.build(srcs, opts)
        except Exception as e:
            raise Unsupported(f"mypy build failed: {type(e).__name__}: {str(e)[:200]}")
        finally:
            os.chdir(cwd)
        self.errors = list(res.errors)
        types = res.types
        attr_cache: dict[type, list[str]] = {}
        for modname in self.repo.mods:
            mf = res.files.get(modname)
            if mf is None:
                continue
            out: dict[tuple[int, int, str], str] = {}
            seen: set[int] = set()
            stack: list[object] = [mf]
            while stack:
                n = stack.pop()
                if id(n) in seen:
                    continue
                seen.add(id(n))
                if isinstance(n, Expression):
                    t = types.get(n)
                    if t is not None:
                        out[(n.line, n.column, type(n).__name__)] = str(t)
                cls = type(n)
                attrs = attr_cache.get(cls)
                if attrs is None:
                    attrs = [a for a in dir(cls) if not a.startswith("_") and a not in SKIP_ATTRS]
                    attr_cache[cls] = attrs
                for a in attrs:
                    try:
                        v = getattr(n, a)
                    except Exception:
                        continue
                    if isinstance(v, Node):
                        if type(v).__name__ in ("TypeInfo", "Var", "MypyFile", "TypeAlias", "FuncDef") and a not in ("defs", "body", "func", "items"):
                            if type(v).__name__ != "FuncDef":
                                continue
                        stack.append(v)
                    elif isinstance(v, (list, tuple)):
                        for x in v:
                            if isinstance(x, Node) and type(x).__name__ not in ("TypeInfo", "Var", "MypyFile"):
                                stack.append(x)
                            elif isinstance(x, (list, tuple)):
                                for y in x:
                                    if isinstance(y, Node) and type(y).__name__ not in ("TypeInfo", "Var", "MypyFile"):
                                        stack.append(y)
            self.modules[modname] = TypedModule(modname, out)

    KINDS = {"Name": "NameExpr", "Attribute": "MemberExpr", "Call": "CallExpr", "Subscript": "IndexExpr"}

    def type_at(self, modname: str, line: int, col: int, ast_kind: str | None = None) -> list[str]:
        m = self.modules.get(modname)
        if m is None:
            return []
        want = self.KINDS.get(ast_kind or "")
        return [t for (l, c, k), t in m.expr_types.items() if l == line and c == col and (want is None or k == want)]


_cached: TypedRepo | None = None


def typed_repo(repo: Repo) -> TypedRepo:
    global _cached
    if _cached is None or _cached.repo is not repo:
        _cached = TypedRepo(repo)
    return _cached


def witness(repo: Repo, snippets: dict[str, str]) -> dict[str, list[str]]:
    """Type-check small programs against the package (compile-fail witnesses).  Returns name -> error lines."""
    import tempfile

    from mypy import api

    out: dict[str, list[str]] = {}
    old = os.environ.get("MYPYPATH")
    os.environ["MYPYPATH"] = str(repo.root / "src")
    try:
        return _witness(repo, snippets, out)
    finally:
        if old is None:
            os.environ.pop("MYPYPATH", None)
        else:
            os.environ["MYPYPATH"] = old


def _witness(repo: Repo, snippets: dict[str, str], out: dict[str, list[str]]) -> dict[str, list[str]]:
    import tempfile

    from mypy import api

    with tempfile.TemporaryDirectory(prefix="pyoakverif-mypy-") as d:
        for name, src in snippets.items():
            p = Path(d) / f"{name}.py"
            p.write_text(src)
            env_path = str(repo.root / "src")
            stdout, stderr, rc = api.run(["--no-incremental", "--cache-dir", os.devnull, "--ignore-missing-imports", "--follow-imports", "silent",
                                          "--no-error-summary", "--hide-error-context", f"--python-executable={sys.executable}", str(p)]
                                         + [])
            out[name] = [l for l in stdout.splitlines() if l.strip()]
    return out
