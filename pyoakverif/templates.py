"""Partial evaluator for the code templates of ``pyoak.codegen`` (component E).

``codegen`` builds the per-class accessors as text.  The nested ``_build_body``
builders are straight-line string builders whose control flow depends only on the
*field descriptor* (name kind, compare, init, is_collection).  They are
evaluated here over that finite domain with a tiny evaluator for constant string
expressions; the emitted fragments are parsed with ``ast`` and analysed like any
other source.  Nothing from the repository is imported or executed.
"""
from __future__ import annotations

import ast
from dataclasses import dataclass
from types import SimpleNamespace
from typing import Any

from .astutil import dotted, norm, strip_docstring
from .srcmodel import Func, Mod, Repo, Unsupported

CODEGEN = "pyoak.codegen"


class _Return(Exception):
    pass


def module_constants(mod: Mod) -> dict[str, Any]:
    env: dict[str, Any] = {}
    for st in mod.tree.body:
        if isinstance(st, ast.Assign) and len(st.targets) == 1 and isinstance(st.targets[0], ast.Name):
            try:
                env[st.targets[0].id] = const_eval(st.value, env)
            except Unsupported:
                pass
    return env


def const_eval(e: ast.AST, env: dict[str, Any]) -> Any:
    """Evaluate a constant / descriptor-dependent expression (strings, bools, small ints)."""
    if isinstance(e, ast.Constant):
        return e.value
    if isinstance(e, ast.Name):
        if e.id in env:
            return env[e.id]
        raise Unsupported(f"name {e.id} is not a template constant", e)
    if isinstance(e, ast.Attribute):
        base = const_eval(e.value, env)
        if isinstance(base, SimpleNamespace) and hasattr(base, e.attr):
            return getattr(base, e.attr)
        raise Unsupported(f"attribute {norm(e)} is not part of the field descriptor", e)
    if isinstance(e, ast.JoinedStr):
        out = ""
        for v in e.values:
            if isinstance(v, ast.Constant):
                out += str(v.value)
            elif isinstance(v, ast.FormattedValue):
                if v.format_spec is not None:
                    raise Unsupported("format spec in template", v)
                val = const_eval(v.value, env)
                if v.conversion == 114:
                    out += repr(val)
                else:
                    out += str(val)
            else:
                raise Unsupported("f-string part", v)
        return out
    if isinstance(e, ast.BinOp):
        l, r = const_eval(e.left, env), const_eval(e.right, env)
        if isinstance(e.op, ast.Add):
            return l + r
        if isinstance(e.op, ast.Mult):
            return l * r
        if isinstance(e.op, ast.Mod) and isinstance(l, str):
            return l % r
        raise Unsupported(f"operator in template expression {norm(e)}", e)
    if isinstance(e, ast.UnaryOp) and isinstance(e.op, ast.Not):
        return not const_eval(e.operand, env)
    if isinstance(e, ast.BoolOp):
        if isinstance(e.op, ast.And):
            v: Any = True
            for x in e.values:
                v = const_eval(x, env)
                if not v:
                    return v
            return v
        v = False
        for x in e.values:
            v = const_eval(x, env)
            if v:
                return v
        return v
    if isinstance(e, ast.Compare):
        left = const_eval(e.left, env)
        res = True
        for op, rhs in zip(e.ops, e.comparators):
            right = const_eval(rhs, env)
            if isinstance(op, ast.Eq):
                ok = left == right
            elif isinstance(op, ast.NotEq):
                ok = left != right
            elif isinstance(op, ast.In):
                ok = left in right
            elif isinstance(op, ast.NotIn):
                ok = left not in right
            elif isinstance(op, ast.Is):
                ok = left is right
            elif isinstance(op, ast.IsNot):
                ok = left is not right
            else:
                raise Unsupported("comparison in template", e)
            res = res and ok
            left = right
        return res
    if isinstance(e, (ast.Tuple, ast.List, ast.Set)):
        return tuple(const_eval(x, env) for x in e.elts)
    if isinstance(e, ast.IfExp):
        return const_eval(e.body, env) if const_eval(e.test, env) else const_eval(e.orelse, env)
    if isinstance(e, ast.Call):
        # str methods on constants: "...".join([...]) / .strip() / .replace()
        if isinstance(e.func, ast.Attribute) and not e.keywords:
            base = const_eval(e.func.value, env)
            args = [const_eval(a, env) for a in e.args]
            if isinstance(base, str) and e.func.attr in ("join", "strip", "replace", "format", "lstrip", "rstrip"):
                return getattr(base, e.func.attr)(*args)
            if isinstance(base, str) and e.func.attr in ("startswith", "endswith"):
                return getattr(base, e.func.attr)(*args)
        if dotted(e.func) == "_indent" and "_indent" in env:
            return env["_indent"](*[const_eval(a, env) for a in e.args])
        raise Unsupported(f"call in template expression {norm(e)[:60]}", e)
    raise Unsupported(f"expression kind {type(e).__name__} in template", e)


def run_builder(fn: ast.FunctionDef, env: dict[str, Any], acc: str) -> str:
    """Run a ``_build_body`` style builder; returns the text appended to the accumulator ``acc`` variable."""
    out: list[str] = []
    local = dict(env)

    def block(stmts: list[ast.stmt]) -> None:
        for st in stmts:
            if isinstance(st, ast.Nonlocal) or isinstance(st, ast.Pass):
                continue
            if isinstance(st, ast.Expr) and isinstance(st.value, ast.Constant):
                continue
            if isinstance(st, ast.If):
                block(st.body if const_eval(st.test, local) else st.orelse)
                continue
            if isinstance(st, ast.AugAssign) and isinstance(st.op, ast.Add) and isinstance(st.target, ast.Name):
                v = const_eval(st.value, local)
                if st.target.id == acc:
                    out.append(v)
                else:
                    local[st.target.id] = local.get(st.target.id, "") + v
                continue
            if isinstance(st, ast.Assign) and len(st.targets) == 1 and isinstance(st.targets[0], ast.Name):
                if st.targets[0].id == acc:
                    raise Unsupported("builder re-assigns the accumulator", st)
                local[st.targets[0].id] = const_eval(st.value, local)
                continue
            if isinstance(st, ast.AnnAssign) and isinstance(st.target, ast.Name) and st.value is not None:
                local[st.target.id] = const_eval(st.value, local)
                continue
            if isinstance(st, ast.Return):
                if st.value is not None and not (isinstance(st.value, ast.Constant) and st.value.value is None):
                    raise Unsupported("builder returns a value", st)
                raise _Return()
            raise Unsupported(f"statement kind {type(st).__name__} in template builder", st)

    try:
        block(strip_docstring(fn.body))
    except _Return:
        pass
    return "".join(out)


@dataclass
class Fragment:
    gen: str  # generator function name
    accessor: str  # generated accessor name
    desc: dict[str, Any]
    text: str
    stmts: list[ast.stmt]
    builder: Func


def _nested(fn: ast.FunctionDef, name: str) -> ast.FunctionDef | None:
    for n in ast.walk(fn):
        if isinstance(n, ast.FunctionDef) and n.name == name and n is not fn:
            return n
    return None


def parse_fragment(text: str) -> list[ast.stmt]:
    """The fragment is emitted one level deep (inside ``if sort_keys:``)."""
    try:
        tree = ast.parse("if True:\n" + text)
    except SyntaxError as e:
        raise Unsupported(f"emitted fragment does not parse: {e}: {text!r}")
    assert isinstance(tree.body[0], ast.If)
    return tree.body[0].body


GENERATORS = {
    "_gen_get_child_nodes_func": "get_child_nodes",
    "_gen_get_child_nodes_with_field_func": "get_child_nodes_with_field",
    "_gen_iter_child_fields_func": "iter_child_fields",
    "_gen_get_properties_func": "get_properties",
}
FIELD = "FIELD"  # placeholder field name (a valid identifier, so fragments parse)


def descriptors(gen: str) -> list[dict[str, Any]]:
    if gen == "_gen_get_properties_func":
        out = []
        for name in ("id", "content_id", "origin", FIELD):
            for compare in (True, False):
                for init in (True, False):
                    out.append({"name": name, "compare": compare, "init": init})
        return out
    return [{"name": FIELD, "is_collection": c} for c in (True, False)]


_FRAG_CACHE: dict[tuple[int, str], list[Fragment]] = {}


def gen_func(repo: Repo, gen: str):
    """The function that plays the generator's role: the one of that name, or (when the generators were merged / renamed) the
    function the accessor's bootstrap hands (the class, the field table) to; failing that, the bootstrap itself."""
    if repo.has_func(CODEGEN, gen):
        return repo.func(CODEGEN, gen)
    from .geneval import GEN_BOOTSTRAP, bootstrap_call
    call = bootstrap_call(repo.mod(CODEGEN), gen)
    if call is not None:
        n = dotted(call.func)
        if n and repo.has_func(CODEGEN, n):
            return repo.func(CODEGEN, n)
        return repo.func(CODEGEN, GEN_BOOTSTRAP[gen])
    return repo.func(CODEGEN, gen)  # raises AnchorMissing


def fragments(repo: Repo, gen: str) -> list[Fragment]:
    """Per-descriptor fragments of the emitted accessor: the generator is evaluated on a one-field mapping for every
    descriptor of the finite domain (geneval.run_generator); the fragment is what the `if sort_keys:` branch contains.
    How the generator is organised internally does not matter."""
    from .geneval import Fld, TypeInfo, branches, parse_body, run_generator

    key = (id(repo), gen)
    if key in _FRAG_CACHE:
        return _FRAG_CACHE[key]
    f = gen_func(repo, gen)
    out = []
    for d in descriptors(gen):
        fld = Fld(d["name"], d.get("compare", True), d.get("init", True))
        cap = run_generator(repo, gen, [(fld, TypeInfo(d.get("is_collection", False)))])
        srt, uns = branches(parse_body(cap.body or ""))
        if [norm(x) for x in srt] != [norm(x) for x in uns]:
            raise Unsupported(f"{gen}: for a single field the sorted and the unsorted branch differ", f.node)
        # the emitted code is a function of (name kind, compare, init[, is_collection]) only: other Field attributes must not matter
        extra_dep = None
        for attr, vals in (("hash", (False, True)), ("repr", (False,)), ("kw_only", (True,))):
            for v in vals:
                f2 = Fld(d["name"], d.get("compare", True), d.get("init", True), **{attr: v})
                cap2 = run_generator(repo, gen, [(f2, TypeInfo(d.get("is_collection", False)))])
                if (cap2.body or "") != (cap.body or ""):
                    extra_dep = f"{attr}={v!r}"
                    break
            if extra_dep:
                break
        if extra_dep is None and gen != "_gen_get_properties_func":
            # the child accessors list every child field: how the field is declared (init / compare) must not matter either
            for cmp_, ini_ in ((True, False), (False, True), (False, False)):
                f2 = Fld(d["name"], cmp_, ini_)
                cap2 = run_generator(repo, gen, [(f2, TypeInfo(d.get("is_collection", False)))])
                if (cap2.body or "") != (cap.body or ""):
                    extra_dep = f"compare={cmp_!r}, init={ini_!r}"
                    break
        text = "\n".join("    " + ast.unparse(x).replace("\n", "\n    ") for x in srt) + "\n"
        fr = Fragment(gen, GENERATORS[gen], d, text, srt, f)
        fr.extra_dep = extra_dep  # type: ignore[attr-defined]
        out.append(fr)
    _FRAG_CACHE[key] = out
    return out


def accessor_name(repo: Repo, gen: str) -> tuple[str, ast.Call]:
    """The accessor name handed to ``_gen_func`` and the call itself (from the evaluation of the generator)."""
    from .geneval import Fld, TypeInfo, run_generator

    cap = run_generator(repo, gen, [(Fld(FIELD), TypeInfo(False))])
    if not isinstance(cap.fname, str) or cap.call is None:
        raise Unsupported(f"{gen}: accessor name handed to _gen_func is not a constant", gen_func(repo, gen).node)
    return cap.fname, cap.call
