"""Loop summaries decided by induction over an extracted transfer function.

chain_generator: a generator that must yield the chain  step(start), step(step(start)), ...  until the step gives None.
The loop is not pattern-matched.  One iteration (loop test + body) is turned into a decision tree whose atoms, yields
and next-state expressions are all expressed in the values the loop-carried variables have at the *entry* of the
iteration (path-wise substitution, dtree.decision_tree(resolve="calls")).  Two invariants are tried for every carried
variable X:

  B ("cursor"):     X holds the last element yielded (initially start)
                    iteration: step(X) is None  -> leave, nothing yielded
                               otherwise        -> yield exactly step(X);  X' = step(X)
  A ("lookahead"):  X holds the next element to yield (initially step(start))
                    iteration: X is None        -> leave, nothing yielded
                               otherwise        -> yield exactly X;        X' = step(X)

Base case + inductive step proven  => HOLDS for chains of every length.  A verdict of VIOLATION is given only when all
atoms of the iteration are None-tests the analysis understands and the step case is contradicted (wrong element, stops
early, runs past the end, wrong start).  Everything else is Unsupported (analysis-incomplete), never a violation.

search_loop: lowering of  ``return any(<gen>)`` / ``all`` / ``next((.. for ..), default)``  into the first-match
for-loop form so that a single decision procedure serves all spellings.
"""
from __future__ import annotations

import ast
import copy
from dataclasses import dataclass
from typing import Callable

from .astutil import norm, walk_body
from .dtree import Leaf, decision_tree
from .finite import k_none
from .srcmodel import Unsupported


@dataclass
class ChainVerdict:
    ok: bool
    why: str
    kind: str = ""  # A | B | recursive
    evaluations: int = 0


_EMIT: list = [None]  # emission extractor in force (None: yields)


def _yields(stmts: list[ast.stmt]) -> list[str]:
    """Elements emitted by the statements, in order: ``yield E`` by default, or whatever the rule's extractor recognises
    (e.g. ``X._set_content_id()`` emits X)."""
    out = []
    for st in stmts:
        if _EMIT[0] is not None:
            for n in ast.walk(st):
                t = _EMIT[0](n)
                if t is not None:
                    out.append(t)
            continue
        for n in ast.walk(st):
            if isinstance(n, ast.YieldFrom):
                raise Unsupported("yield from inside a chain loop", n)
            if isinstance(n, ast.Yield):
                out.append(norm(n.value) if n.value is not None else "None")
    return out


def _last_store(stmts: list[ast.stmt], name: str) -> str | None:
    val = None
    for st in stmts:
        if isinstance(st, ast.Assign) and len(st.targets) == 1 and isinstance(st.targets[0], ast.Name) and st.targets[0].id == name:
            val = norm(st.value)
        elif isinstance(st, ast.AnnAssign) and isinstance(st.target, ast.Name) and st.target.id == name and st.value is not None:
            val = norm(st.value)
        elif any(isinstance(n, ast.Name) and n.id == name and isinstance(n.ctx, ast.Store) for n in ast.walk(st)):
            val = "?"
    return val


def chain_generator(body: list[ast.stmt], start: str, step: Callable[[str], str], self_call: Callable[[str], str] | None = None, *,
                    emit: Callable[[ast.AST], str | None] | None = None, include_start: bool = False) -> ChainVerdict:
    """``body``: normalised generator body (docstring stripped).  ``step(x)``: source text of the successor of x.
    ``self_call(x)``: text of the recursive call of the generator on x (for the recursive spelling).
    ``emit``: what counts as emitting an element (default: yield).  ``include_start``: the chain begins with ``start``
    itself (which is known not to be None) instead of step(start)."""
    _EMIT[0] = emit
    try:
        return _chain(body, start, step, self_call, include_start)
    finally:
        _EMIT[0] = None


def _chain(body: list[ast.stmt], start: str, step: Callable[[str], str], self_call: Callable[[str], str] | None, include_start: bool) -> ChainVerdict:
    loops = [st for st in body if isinstance(st, (ast.While, ast.For))]
    if not loops:
        calls = [n for n in walk_body(body) if isinstance(n, ast.Call)]
        if _EMIT[0] is not None and all(_EMIT[0](c) is not None for c in calls) and not any(isinstance(n, (ast.Yield, ast.YieldFrom)) for n in walk_body(body)):
            # straight-line code whose only calls are emissions: a bounded number of elements, the chain is not
            return ChainVerdict(False, f"emits only {_yields(body)}: no loop or recursion follows the chain", "bounded", 1)
        return _recursive_chain(body, start, step, self_call)
    if len(loops) != 1 or not isinstance(loops[0], ast.While) or loops[0].orelse:
        raise Unsupported("chain generator: not a single while loop", body[0] if body else None)
    lp = loops[0]
    i = body.index(lp)
    prologue, epilogue = body[:i], body[i + 1:]
    if _yields(epilogue):
        raise Unsupported("chain generator: emissions after the loop", epilogue[0])
    pl = decision_tree(prologue, resolve="calls")
    if len(pl) != 1 or pl[0].outcome != "fall":
        raise Unsupported("chain generator: the code before the loop branches", lp)
    pre_emits = _yields(pl[0].stmts)
    first = start if include_start else step(start)
    carried = sorted({n.id for n in ast.walk(lp) if isinstance(n, ast.Name) and isinstance(n.ctx, ast.Store)})
    init = {v: (_last_store(pl[0].stmts, v) or v) for v in carried}  # not assigned before the loop: the variable's own incoming value (a parameter)
    # one iteration, in terms of the entry values  v__in
    entry = [ast.Assign(targets=[ast.Name(id=v, ctx=ast.Store())], value=ast.Name(id=f"{v}__in", ctx=ast.Load()), lineno=lp.lineno, col_offset=0) for v in carried]
    it: list[ast.stmt] = list(entry)
    if not (isinstance(lp.test, ast.Constant) and lp.test.value is True):
        it.append(ast.copy_location(ast.If(test=ast.UnaryOp(op=ast.Not(), operand=copy.deepcopy(lp.test)), body=[ast.copy_location(ast.Break(), lp)], orelse=[]), lp))
    it += lp.body
    for st in it:
        ast.fix_missing_locations(st)
    leaves = decision_tree(it, resolve="calls", alias_filter=lambda st: False)
    live = {v for v in carried for lf in leaves if any(f"{v}__in" in k for k in lf.assign) or any(f"{v}__in" in norm(s) for s in lf.stmts[len(entry):])}
    for x in carried:  # the end of the chain recognised by truthiness: an element that is falsy (__len__ / __bool__) ends it early
        for lf in leaves:
            for k in lf.assign:
                if k in (f"{x}__in", step(f"{x}__in")):
                    return ChainVerdict(False, f"the end of the chain is detected by the truthiness of `{k.replace('__in', '')}` (a falsy element stops it early): `is None` required", "truthiness", len(leaves))
    unsupported: list[str] = []
    for x in carried:
        if live - {x}:
            continue
        xin = f"{x}__in"
        before_first = None if include_start else start  # the cursor position "nothing emitted yet" (B only)
        readings = [
            # kind, atom, element emitted, emitted before the loop, base value of X, a recognisably wrong base, its message
            ("A", k_none(xin), xin, [], first, (start if not include_start else step(start)),
             "the start node itself is yielded" if not include_start else "the start node itself is skipped"),
            ("B", k_none(step(xin)), step(xin), [] if not include_start else [start], before_first if not include_start else start,
             step(start) if not include_start else None, "the first element of the chain is skipped"),
        ]
        if include_start:
            readings.append(("C", k_none(step(xin)), xin, [], start, None, ""))
        for kind, key, elem, want_pre, want_init, wrong_init, wrong_msg in readings:
            v = _check_iteration(leaves, x, key, elem, step(xin), kind)
            if v is None:
                continue  # atoms not understood for this reading
            ok, why = v
            if not ok:
                if init.get(x) in (want_init, wrong_init) and pre_emits == want_pre:
                    return ChainVerdict(False, why, kind, len(leaves))
                continue
            if init.get(x) == want_init and pre_emits == want_pre:
                return ChainVerdict(True, f"invariant {kind} on `{x}`: base {x} = {want_init}; step proven on {len(leaves)} paths", kind, len(leaves))
            if wrong_init is not None and init.get(x) == wrong_init and pre_emits == want_pre:
                return ChainVerdict(False, wrong_msg, kind, len(leaves))
            unsupported.append(f"{x} starts as {init.get(x)}")
    cex = _simulate(leaves, carried, init, start, step, len(entry), pre_emits, include_start)
    if cex is not None:
        return ChainVerdict(False, cex, "counterexample", len(leaves))
    raise Unsupported("chain generator: no loop invariant of the two known shapes could be established"
                      + (f" ({unsupported[0]})" if unsupported else ""), lp)


def _simulate(leaves: list[Leaf], carried: list[str], init: dict[str, str | None], start: str, step: Callable[[str], str], n_entry: int,
              pre_emits: list[str] | None = None, include_start: bool = False) -> str | None:
    """Counterexample search when no invariant fits: run the extracted transfer function on chains with 0..5 ancestors.
    Only used to *refute*; needs every atom to be a None-test of a chain term.  Returns a description or None."""
    probe = step("\x00")
    pre, post = probe.split("\x00")

    def index(term: str | None, state: dict[str, object]) -> object:
        """position in the chain (0 = start), or 'unknown'"""
        if term is None:
            return "unknown"
        if term == start:
            return 0
        if term.endswith("__in") and term[:-4] in state:
            return state[term[:-4]]
        if term.startswith(pre) and term.endswith(post) and len(term) > len(pre) + len(post):
            inner = index(term[len(pre):len(term) - len(post)] if post else term[len(pre):], state)
            return inner + 1 if isinstance(inner, int) else "unknown"
        if term == "None":
            return 10**6
        return "unknown"

    def atom_term(key: str) -> str | None:
        if key.startswith("is(None,") and key.endswith(")"):
            return key[len("is(None,"):-1]
        if key.startswith("is(") and key.endswith(",None)"):
            return key[3:-len(",None)")]
        return None

    if any(atom_term(k) is None for lf in leaves for k in lf.assign):
        return None
    for L in range(0, 6):
        state: dict[str, object] = {v: index(init.get(v), {}) for v in carried}
        emitted: list[object] = [index(t, {}) for t in (pre_emits or [])]
        finished = False
        for _ in range(L + 4):
            chosen = None
            for lf in leaves:
                ok = True
                for k, want in lf.assign.items():
                    i = index(atom_term(k), state)
                    if not isinstance(i, int):
                        return None
                    if (i > L) != want:
                        ok = False
                        break
                if ok:
                    chosen = lf
                    break
            if chosen is None:
                return None
            for y in _yields(chosen.stmts):
                emitted.append(index(y, state))
            if chosen.outcome == "raise":
                return None
            if chosen.outcome in ("break", "return"):
                finished = True
                break
            new = dict(state)
            for v in carried:
                t = _last_store(chosen.stmts[n_entry:], v)
                if t is not None:
                    new[v] = index(t, state)
            state = new
        if any(not isinstance(e, int) for e in emitted):
            return None
        want_seq = list(range(0 if include_start else 1, L + 1))
        got = [e if e <= L else None for e in emitted]  # type: ignore[operator]
        if not finished and got[:len(want_seq)] == want_seq and len(got) <= len(want_seq):
            return None  # did not terminate within the bound but nothing wrong seen
        if got != want_seq or not finished:
            def show(seq):
                return [("node" if e == 0 else f"ancestor#{e}") if e is not None else "None" for e in seq]
            return f"for a node with {L} ancestors the generator yields {show(got)} instead of {show(want_seq)}"
    return None


def _check_iteration(leaves: list[Leaf], x: str, key: str, elem: str, nxt: str, kind: str) -> tuple[bool, str] | None:
    """None: the iteration's atoms are not (only) the expected None-test.  Otherwise (ok, reason)."""
    if not all(set(lf.assign) <= {key} for lf in leaves):
        return None
    if not any(key in lf.assign for lf in leaves):
        return None
    for lf in leaves:
        ys = _yields(lf.stmts)
        exits = lf.outcome in ("break", "return")
        if lf.outcome == "raise":
            return None
        if kind == "C":  # do-while: X is due and not None; emit it, then leave iff it has no successor
            if ys != [elem]:
                return False, f"emits {ys} where {elem} is due"
            if key not in lf.assign:
                return False, "continues / leaves without testing whether a successor exists"
            if lf.assign[key]:
                if not exits:
                    return False, "does not stop at the end of the chain"
            else:
                if exits:
                    return False, "stops although a successor exists"
                got = _last_store(lf.stmts, x)
                if got != nxt:
                    return False, f"advances `{x}` to {got} instead of {nxt}"
            continue
        if key not in lf.assign:
            return False, "the loop yields or leaves without testing whether the chain has ended"
        if lf.assign[key]:
            if ys:
                return False, f"yields {ys} although the chain has ended"
            if not exits:
                return False, "does not stop when the chain has ended"
        else:
            if exits:
                return False, "stops although a further ancestor exists" if not ys or ys == [elem] else f"yields {ys} and stops"
            if ys != [elem]:
                return False, f"yields {ys} where the next chain element {elem} is due"
            got = _last_store(lf.stmts, x)
            if got != nxt:
                return False, f"advances `{x}` to {got} instead of {nxt}"
    return True, ""


def _recursive_chain(body: list[ast.stmt], start: str, step: Callable[[str], str], self_call: Callable[[str], str] | None) -> ChainVerdict:
    if self_call is None:
        raise Unsupported("chain generator without a loop", body[0] if body else None)
    leaves = decision_tree(body, resolve="calls", alias_filter=lambda st: False)
    key = k_none(step(start))
    if not all(set(lf.assign) <= {key} for lf in leaves) or not any(key in lf.assign for lf in leaves):
        raise Unsupported("recursive chain generator: unknown guards", body[0])
    for lf in leaves:
        items: list[str] = []
        for st in lf.stmts:
            for n in ast.walk(st):
                if isinstance(n, ast.Yield):
                    items.append("Y:" + (norm(n.value) if n.value is not None else "None"))
                elif isinstance(n, ast.YieldFrom):
                    items.append("F:" + norm(n.value))
        if key not in lf.assign:
            return ChainVerdict(False, "yields without testing whether a parent exists", "recursive", len(leaves))
        if lf.assign[key]:
            if items:
                return ChainVerdict(False, f"yields {items} although the chain has ended", "recursive", len(leaves))
        elif items != ["Y:" + step(start), "F:" + self_call(step(start))]:
            return ChainVerdict(False, f"emits {items} instead of the parent followed by the parent's chain", "recursive", len(leaves))
    return ChainVerdict(True, "structural induction: parent, then the chain of the parent", "recursive", len(leaves))


# ------------------------------------------------------------------------------------------------ first-match search
def lower_search(body: list[ast.stmt]) -> list[ast.stmt]:
    """Rewrite a trailing ``return any(E for T in S)`` / ``return all(...)`` / ``return next((V for T in S if C), D)``
    into the loop form (`for T in S: if E: return True` + `return False`).  Other statements are returned unchanged."""
    if not body or not isinstance(body[-1], ast.Return) or body[-1].value is None:
        return body
    ret = body[-1]
    v = ret.value
    neg = False
    if isinstance(v, ast.UnaryOp) and isinstance(v.op, ast.Not):
        v, neg = v.operand, True
    if not (isinstance(v, ast.Call) and isinstance(v.func, ast.Name) and v.args and isinstance(v.args[0], (ast.GeneratorExp, ast.ListComp))
            and len(v.args[0].generators) == 1 and not v.keywords):
        return body
    g = v.args[0]
    gen = g.generators[0]

    def mk(test: ast.expr, found: ast.expr, default: ast.expr) -> list[ast.stmt]:
        for c in gen.ifs[::-1]:
            test = ast.BoolOp(op=ast.And(), values=[c, test]) if test is not None else c
        inner = ast.If(test=test, body=[ast.Return(value=found)], orelse=[])
        loop = ast.For(target=gen.target, iter=gen.iter, body=[inner], orelse=[])
        out = [loop, ast.Return(value=default)]
        for st in out:
            ast.copy_location(st, ret)
            ast.fix_missing_locations(st)
        return out

    T, F = ast.Constant(value=True), ast.Constant(value=False)
    if v.func.id == "any" and len(v.args) == 1:
        new = mk(g.elt, F if neg else T, T if neg else F)
    elif v.func.id == "all" and len(v.args) == 1:
        new = mk(ast.UnaryOp(op=ast.Not(), operand=g.elt), T if neg else F, F if neg else T)
    elif v.func.id == "next" and len(v.args) == 2 and not neg:
        if not gen.ifs:
            return body
        test = gen.ifs[0] if len(gen.ifs) == 1 else ast.BoolOp(op=ast.And(), values=list(gen.ifs))
        inner = ast.If(test=test, body=[ast.Return(value=g.elt)], orelse=[])
        loop = ast.For(target=gen.target, iter=gen.iter, body=[inner], orelse=[])
        new = [loop, ast.Return(value=v.args[1])]
        for st in new:
            ast.copy_location(st, ret)
            ast.fix_missing_locations(st)
    else:
        return body
    return body[:-1] + new


@dataclass
class Search:
    loop: ast.For
    target: str
    iter: ast.expr
    leaves: list[Leaf]  # one iteration
    default: ast.expr | None  # value returned when the loop finishes
    prologue: list[ast.stmt]


def search_loop(body: list[ast.stmt], **dt) -> Search:
    """`<prologue>; for T in S: <iteration>; return D` (after lower_search)."""
    body = lower_search(body)
    loops = [st for st in body if isinstance(st, ast.For)]
    if len(loops) != 1 or loops[0].orelse:
        raise Unsupported("search: not a single for loop", body[0] if body else None)
    lp = loops[0]
    i = body.index(lp)
    tail = body[i + 1:]
    default = None
    if tail:
        if len(tail) != 1 or not isinstance(tail[0], ast.Return):
            raise Unsupported("search: code after the loop is not a single return", tail[0])
        default = tail[0].value
    return Search(lp, norm(lp.target), lp.iter, decision_tree(lp.body, **dt), default, body[:i])


def lower_collect(body: list[ast.stmt]) -> list[ast.stmt]:
    """``return [E for T in S if C]``  ->  ``__acc = []; for T in S: if C: __acc.append(E)``; ``return __acc``
    (also for ``return list(<generator>)`` / ``tuple(...)`` is left alone: the result type differs)."""
    if not body or not isinstance(body[-1], ast.Return) or body[-1].value is None:
        return body
    ret = body[-1]
    v = ret.value
    if isinstance(v, ast.Call) and isinstance(v.func, ast.Name) and v.func.id == "list" and len(v.args) == 1 and isinstance(v.args[0], ast.GeneratorExp):
        v = v.args[0]
    if not isinstance(v, (ast.ListComp, ast.GeneratorExp)) or (isinstance(v, ast.GeneratorExp) and v is ret.value) or len(v.generators) != 1:
        return body
    gen = v.generators[0]
    app: ast.stmt = ast.Expr(value=ast.Call(func=ast.Attribute(value=ast.Name(id="__acc", ctx=ast.Load()), attr="append", ctx=ast.Load()), args=[v.elt], keywords=[]))
    inner: list[ast.stmt] = [app]
    for c in gen.ifs[::-1]:
        inner = [ast.If(test=c, body=inner, orelse=[])]
    new: list[ast.stmt] = [
        ast.Assign(targets=[ast.Name(id="__acc", ctx=ast.Store())], value=ast.List(elts=[], ctx=ast.Load())),
        ast.For(target=gen.target, iter=gen.iter, body=inner, orelse=[]),
        ast.Return(value=ast.Name(id="__acc", ctx=ast.Load())),
    ]
    for st in new:
        ast.copy_location(st, ret)
        ast.fix_missing_locations(st)
    return body[:-1] + new


def module_constant(tree: ast.Module, name: str) -> ast.expr | None:
    """The literal a module-level name is bound to (exactly once), for names used as constants."""
    defs = [st for st in tree.body if isinstance(st, (ast.Assign, ast.AnnAssign))
            and any(isinstance(t, ast.Name) and t.id == name for t in (st.targets if isinstance(st, ast.Assign) else [st.target]))]
    if len(defs) != 1 or defs[0].value is None:
        return None
    v = defs[0].value
    if isinstance(v, ast.Call) and isinstance(v.func, ast.Name) and v.func.id in ("frozenset", "set", "tuple") and len(v.args) == 1:
        v = v.args[0]
    if isinstance(v, (ast.Tuple, ast.List, ast.Set)) and all(isinstance(e, ast.Constant) for e in v.elts):
        return v
    if isinstance(v, ast.Constant):
        return v
    return None
