"""Lark grammars lifted from string literals of the analysed source (component F).

The grammar text is taken from the module with ``ast.literal_eval`` and parsed
with ``lark.load_grammar`` (the repository's own dependency; only its grammar
*loader* is used on a string — no repository code is imported).
"""
from __future__ import annotations

import ast
from dataclasses import dataclass, field

from .astutil import dotted, norm, walk_body
from .srcmodel import Mod, Repo, Unsupported


@dataclass
class Sym:
    name: str
    kind: str  # "rule" | "term"
    many: bool  # under * / + / ~n
    optional: bool  # under ? or *


@dataclass
class Rule:
    name: str
    symbols: list[Sym] = field(default_factory=list)  # kept symbols over all alternatives
    alternatives: int = 1


@dataclass
class Grammar:
    text: str
    rules: dict[str, Rule]
    terminals: set[str]
    ignore: list[str]


def lift(repo: Repo, modname: str, var: str) -> str:
    m = repo.mod(modname)
    for st in m.tree.body:
        if isinstance(st, ast.Assign) and len(st.targets) == 1 and dotted(st.targets[0]) == var:
            try:
                v = ast.literal_eval(st.value)
            except Exception:
                raise Unsupported(f"{modname}.{var} is not a string literal", st)
            if isinstance(v, str):
                return v
    from .srcmodel import AnchorMissing
    raise AnchorMissing(f"grammar constant {modname}.{var}")


def load(text: str) -> Grammar:
    try:
        from lark.load_grammar import load_grammar
    except Exception as e:  # pragma: no cover
        raise Unsupported(f"lark is not importable: {e}")
    try:
        g, _ = load_grammar(text, "<lifted grammar>", [], False)
    except Exception as e:
        raise Unsupported(f"the grammar literal does not load: {type(e).__name__}: {str(e)[:100]}")
    rules: dict[str, Rule] = {}
    for name, params, tree, opts in g.rule_defs:
        r = Rule(str(name))
        keep_all = bool(getattr(opts, "keep_all_tokens", False))

        def walk(t, many: bool, opt: bool) -> None:
            data = getattr(t, "data", None)
            if data is None:
                return
            if data == "expansions":
                alts = [c for c in t.children if getattr(c, "data", None) is not None]
                for c in alts:
                    walk(c, many, opt or len(alts) > 1)
                return
            if data == "expr":
                op = [c for c in t.children if not hasattr(c, "data")]
                ops = "".join(str(o) for o in op)
                m2 = many or any(x in ops for x in ("*", "+", "~"))
                o2 = opt or any(x in ops for x in ("*", "?"))
                for c in t.children:
                    if hasattr(c, "data"):
                        walk(c, m2, o2)
                return
            if data == "value":
                for c in t.children:
                    if hasattr(c, "data"):
                        walk(c, many, opt)
                    else:
                        cls = type(c).__name__
                        if cls == "NonTerminal":
                            r.symbols.append(Sym(str(c.name), "rule", many, opt))
                        elif cls == "Terminal":
                            r.symbols.append(Sym(str(c.name), "term", many, opt))
                return
            if data in ("literal", "range"):
                if keep_all:
                    r.symbols.append(Sym("<anonymous>", "term", many, opt))
                return
            for c in t.children:
                if hasattr(c, "data"):
                    walk(c, many, opt)

        walk(tree, False, False)
        top = getattr(tree, "children", [])
        r.alternatives = len([c for c in top if getattr(c, "data", None) == "expansion"]) or 1
        rules[r.name] = r
    # which named terminals a terminal definition is built from (read from the text: the loader inlines terminal references)
    import re
    term_refs: dict[str, set[str]] = {}
    cur = None
    for line in text.splitlines():
        m_ = re.match(r"^\s*([A-Z_][A-Z_0-9]*)(\.\d+)?\s*:\s*(.*)$", line)
        if m_:
            cur = m_.group(1)
            term_refs[cur] = set()
            rest = m_.group(3)
        elif cur is not None and re.match(r"^\s*\|", line):
            rest = line
        else:
            cur = None
            continue
        rest = re.sub(r'"(?:[^"\\]|\\.)*"i?', " ", rest)
        rest = re.sub(r"/(?:[^/\\]|\\.)+/[imslux]*", " ", rest)
        term_refs[cur] |= set(re.findall(r"\b[A-Z_][A-Z_0-9]*\b", rest))
    gr = Grammar(text, rules, {str(t[0]) for t in g.term_defs}, [str(i) for i in g.ignore])
    gr.term_refs = term_refs  # type: ignore[attr-defined]
    return gr


# ----------------------------------------------------------------------------- callbacks
@dataclass
class ArgUse:
    const_reads: list[str] = field(default_factory=list)
    whole_uses: list[str] = field(default_factory=list)
    len_uses: int = 0
    other: list[str] = field(default_factory=list)


def arg_uses(fn: ast.FunctionDef, param: str) -> ArgUse:
    """How a transformer callback consumes its ``args`` list."""
    u = ArgUse()
    parents: dict[int, ast.AST] = {}
    for p in ast.walk(fn):
        for c in ast.iter_child_nodes(p):
            parents[id(c)] = p
    for n in walk_body(fn.body):
        if not (isinstance(n, ast.Name) and n.id == param and isinstance(n.ctx, ast.Load)):
            continue
        p = parents.get(id(n))
        if isinstance(p, ast.Subscript) and p.value is n:
            if isinstance(p.slice, ast.Slice):
                if p.slice.upper is None:
                    u.whole_uses.append(norm(p))
                else:
                    u.other.append(norm(p))
            elif isinstance(p.slice, ast.Constant) or (isinstance(p.slice, ast.UnaryOp) and isinstance(p.slice.operand, ast.Constant)):
                u.const_reads.append(norm(p))
            else:
                u.other.append(norm(p))
        elif isinstance(p, ast.Call) and dotted(p.func) == "len":
            u.len_uses += 1
        elif isinstance(p, ast.Call):
            u.whole_uses.append(norm(p)[:60])  # passed whole: join(args), reversed(args), self.element(args), ...
        elif isinstance(p, (ast.For, ast.comprehension)) and p.iter is n:
            u.whole_uses.append("iteration")
        elif isinstance(p, ast.Starred):
            u.whole_uses.append("*args")
        elif isinstance(p, ast.Compare):
            u.other.append(norm(p))
        elif isinstance(p, (ast.Return, ast.Assign)):
            u.whole_uses.append("returned/bound whole")
        else:
            u.other.append(type(p).__name__)
    return u
