"""Finite order-type evaluation of the comparison methods of origin.py (component D).

Code points and ranges are touched only through comparisons of ``.index``.
For k symbolic points every *weak ordering* (75 for k=4, 4683 for k=6) is
represented by dense integer ranks; the bodies of ``__lt__``, ``__le__``,
``__contains__``, ``overlaps``, ``__add__`` and the ``__post_init__`` guards are
evaluated over these representatives with operator dispatch resolved through
the class table of the analysed source (reflected operators, min/max by ``<``).
The statements supported are the guard/return shapes of those methods; anything
else is reported as unsupported.
"""
from __future__ import annotations

import ast
import itertools
from dataclasses import dataclass
from typing import Any

from .astutil import dotted, norm, strip_docstring
from .srcmodel import Repo, Unsupported

ORIGIN = "pyoak.origin"


@dataclass(frozen=True)
class P:  # symbolic CodePoint
    index: int
    line: int = 1
    column: int = 0
    cls: str = "CodePoint"


@dataclass(frozen=True)
class R:  # symbolic CodeRange
    start: P
    end: P
    cls: str = "CodeRange"


class Raised(Exception):
    def __init__(self, exc: str) -> None:
        super().__init__(exc)
        self.exc = exc


class _Ret(Exception):
    def __init__(self, v: Any) -> None:
        self.v = v


REFLECT = {ast.Lt: ("__gt__", "__lt__"), ast.Gt: ("__gt__", "__lt__"), ast.LtE: ("__ge__", "__le__"), ast.GtE: ("__ge__", "__le__")}
DUNDER = {ast.Lt: "__lt__", ast.LtE: "__le__", ast.Gt: "__gt__", ast.GtE: "__ge__"}
SWAP = {"__lt__": "__gt__", "__gt__": "__lt__", "__le__": "__ge__", "__ge__": "__le__"}


class OrderEval:
    def __init__(self, repo: Repo) -> None:
        self.repo = repo
        self.methods: dict[tuple[str, str], ast.FunctionDef] = {}
        for cname in ("CodePoint", "CodeRange"):
            c = repo.cls(ORIGIN, cname)
            for st in c.node.body:
                if isinstance(st, ast.FunctionDef) and not repo.is_new_helper(c.mod, f"{cname}.{st.name}"):
                    self.methods[(cname, st.name)] = repo.func(ORIGIN, f"{cname}.{st.name}").node  # normalised (extracted guards inlined)
        self.calls = 0

    # ------------------------------------------------------------------ methods
    def has(self, cls: str, m: str) -> bool:
        return (cls, m) in self.methods

    def call(self, cls: str, m: str, self_v: Any, *args: Any) -> Any:
        fn = self.methods.get((cls, m))
        if fn is None:
            raise Unsupported(f"{cls}.{m} not defined")
        self.calls += 1
        params = [a.arg for a in fn.args.args]
        env = dict(zip(params, (self_v,) + args))
        try:
            self.block(strip_docstring(fn.body), env)
        except _Ret as r:
            return r.v
        return None

    def construct(self, cls: str, **kw: Any) -> Any:
        v = R(kw["start"], kw["end"]) if cls == "CodeRange" else P(kw["index"], kw.get("line", 1), kw.get("column", 0))
        if self.has(cls, "__post_init__"):
            self.call(cls, "__post_init__", v)
        return v

    def block(self, stmts: list[ast.stmt], env: dict[str, Any]) -> None:
        for st in stmts:
            if isinstance(st, ast.If):
                self.block(st.body if self.ev(st.test, env) else st.orelse, env)
            elif isinstance(st, ast.Return):
                raise _Ret(self.ev(st.value, env) if st.value is not None else None)
            elif isinstance(st, ast.Raise):
                name = dotted(st.exc.func) if isinstance(st.exc, ast.Call) else dotted(st.exc) if st.exc is not None else "?"
                raise Raised(name or "?")
            elif isinstance(st, ast.Pass) or (isinstance(st, ast.Expr) and isinstance(st.value, ast.Constant)):
                continue
            elif isinstance(st, ast.Assign) and len(st.targets) == 1 and isinstance(st.targets[0], ast.Name):
                env[st.targets[0].id] = self.ev(st.value, env)
            elif isinstance(st, ast.Assign) and len(st.targets) == 1 and isinstance(st.targets[0], ast.Tuple) \
                    and all(isinstance(x, ast.Name) for x in st.targets[0].elts):
                v = self.ev(st.value, env)
                if not isinstance(v, tuple) or len(v) != len(st.targets[0].elts):
                    raise Unsupported("tuple unpacking of a non-tuple", st)
                for x, val in zip(st.targets[0].elts, v):
                    env[x.id] = val  # type: ignore[attr-defined]
            else:
                raise Unsupported(f"statement kind {type(st).__name__} in an origin comparison method", st)

    # -------------------------------------------------------------- expressions
    def compare(self, op: ast.cmpop, a: Any, b: Any) -> bool:
        if isinstance(a, int) and isinstance(b, int):
            return {ast.Lt: a < b, ast.LtE: a <= b, ast.Gt: a > b, ast.GtE: a >= b, ast.Eq: a == b, ast.NotEq: a != b}[type(op)]
        if isinstance(op, (ast.Eq, ast.NotEq)):
            return (a == b) == isinstance(op, ast.Eq)
        if isinstance(op, (ast.In, ast.NotIn)):
            if isinstance(b, (P, R)):
                r = bool(self.call(b.cls, "__contains__", b, a))
                return r == isinstance(op, ast.In)
            raise Unsupported("membership on a non-range")
        if isinstance(a, (P, R)) and type(op) in DUNDER:
            d = DUNDER[type(op)]
            if self.has(a.cls, d):
                return bool(self.call(a.cls, d, a, b))
            if isinstance(b, (P, R)) and self.has(b.cls, SWAP[d]):  # reflected operator
                return bool(self.call(b.cls, SWAP[d], b, a))
            raise Unsupported(f"{a.cls} defines neither {d} nor the reflected {SWAP[d]}")
        raise Unsupported(f"comparison {type(op).__name__} on {type(a).__name__}/{type(b).__name__}")

    def ev(self, e: ast.AST | None, env: dict[str, Any]) -> Any:
        if e is None:
            return None
        if isinstance(e, ast.Constant):
            return e.value
        if isinstance(e, ast.Name):
            if e.id in env:
                return env[e.id]
            raise Unsupported(f"free name {e.id}", e)
        if isinstance(e, ast.Attribute):
            v = self.ev(e.value, env)
            if isinstance(v, (P, R)) and hasattr(v, e.attr):
                return getattr(v, e.attr)
            raise Unsupported(f"attribute {norm(e)}", e)
        if isinstance(e, ast.BoolOp):
            if isinstance(e.op, ast.And):
                v: Any = True
                for x in e.values:
                    v = self.ev(x, env)
                    if not v:
                        return v
                return v
            v = False
            for x in e.values:
                v = self.ev(x, env)
                if v:
                    return v
            return v
        if isinstance(e, ast.UnaryOp) and isinstance(e.op, ast.Not):
            return not self.ev(e.operand, env)
        if isinstance(e, ast.Compare):
            left = self.ev(e.left, env)
            for op, rhs in zip(e.ops, e.comparators):
                right = self.ev(rhs, env)
                if not self.compare(op, left, right):
                    return False
                left = right
            return True
        if isinstance(e, ast.BinOp) and isinstance(e.op, ast.Add):
            l, r = self.ev(e.left, env), self.ev(e.right, env)
            if isinstance(l, int) and isinstance(r, int):
                return l + r
            if isinstance(l, (P, R)):
                return self.call(l.cls, "__add__", l, r)
            raise Unsupported("addition", e)
        if isinstance(e, ast.JoinedStr):
            return "<message>"
        if isinstance(e, ast.IfExp):
            return self.ev(e.body, env) if self.ev(e.test, env) else self.ev(e.orelse, env)
        if isinstance(e, ast.Tuple):
            return tuple(self.ev(x, env) for x in e.elts)
        if isinstance(e, ast.Call):
            fn = dotted(e.func)
            if fn == "isinstance" and len(e.args) == 2:
                v = self.ev(e.args[0], env)
                return isinstance(v, (P, R)) and v.cls == dotted(e.args[1])
            if fn in ("min", "max") and len(e.args) == 2 and not e.keywords:
                a, b = self.ev(e.args[0], env), self.ev(e.args[1], env)
                # CPython: min returns b only if b < a; max returns b only if b > a
                if fn == "min":
                    return b if self.compare(ast.Lt(), b, a) else a
                return b if self.compare(ast.Gt(), b, a) else a
            if fn in ("CodeRange", "CodePoint"):
                kws = {k.arg: self.ev(k.value, env) for k in e.keywords}
                names = ["start", "end"] if fn == "CodeRange" else ["index", "line", "column"]
                for n, a in zip(names, e.args):
                    kws[n] = self.ev(a, env)
                return self.construct(fn, **kws)
            if isinstance(e.func, ast.Attribute):
                recv = self.ev(e.func.value, env)
                if isinstance(recv, (P, R)):
                    return self.call(recv.cls, e.func.attr, recv, *[self.ev(a, env) for a in e.args])
            raise Unsupported(f"call {norm(e)[:50]}", e)
        raise Unsupported(f"expression kind {type(e).__name__}", e)


def weak_orderings(k: int) -> list[tuple[int, ...]]:
    """All weak orderings of k points as dense rank tuples."""
    seen = set()
    for t in itertools.product(range(k), repeat=k):
        vals = sorted(set(t))
        canon = tuple(vals.index(x) for x in t)
        seen.add(canon)
    return sorted(seen)
