"""Syntax-directed flow interpreter (component B of DESIGN.md).

A statement list maps a set of abstract states to outcome sets
(falls through / returns / raises / break / continue).  The composition is
structural: If, For/While (fixpoint), Try/except/else/finally, With, Return,
Raise, Break/Continue, Assert, simple statements.  Nested function and class
definitions are opaque (no effect).

The abstract domain is supplied by the rule through a ``Semantics`` object;
states must be hashable.  The same engine, instantiated with a domain that
records the decisions taken, enumerates the paths of a loop-free region.
"""
from __future__ import annotations

import ast
from dataclasses import dataclass, field
from typing import Any, Hashable, Iterable

from .astutil import dotted, norm, walk_local
from .srcmodel import Unsupported

State = Hashable

# Builtins / methods that never raise for the receivers they are used on in this code base.
NON_RAISING_CALLS = {
    "isinstance", "issubclass", "len", "type", "id", "hash", "bool", "str", "repr", "list", "tuple", "dict", "set",
    "frozenset", "cast", "t.cast", "typing.cast", "reversed", "sorted", "enumerate", "zip", "iter", "print",
    "logger.debug", "logger.info", "logger.warning", "logger.exception", "logger.error", "logger.isEnabledFor",
    "deque", "getattr3",
}


def _endless(it: ast.expr) -> bool:
    """itertools.count(...) / itertools.repeat(x) / itertools.cycle(non-empty literal) never end: the loop is left by break, return or raise only."""
    if isinstance(it, ast.Call):
        name = dotted(it.func)
        if name in ("count", "itertools.count") and len(it.args) <= 2:
            return True
        if name in ("repeat", "itertools.repeat") and len(it.args) == 1 and not it.keywords:
            return True
    return False


@dataclass
class Outcome:
    normal: set = field(default_factory=set)
    ret: set = field(default_factory=set)  # (state, return-expr-or-None) pairs are up to the semantics; we keep states
    exc: set = field(default_factory=set)
    brk: set = field(default_factory=set)
    cont: set = field(default_factory=set)

    def merge(self, o: "Outcome") -> None:
        self.normal |= o.normal
        self.ret |= o.ret
        self.exc |= o.exc
        self.brk |= o.brk
        self.cont |= o.cont


class Semantics:
    """Override the hooks you need.  Defaults: statements have no effect on the state."""

    #: treat ``except Exception`` as catching everything raised by analysed code
    exception_is_catch_all = True

    def may_raise_expr(self, e: ast.AST | None) -> bool:
        if e is None:
            return False
        for n in walk_local(e):
            if isinstance(n, ast.Call):
                name = dotted(n.func)
                if name in NON_RAISING_CALLS:
                    continue
                return True
            if isinstance(n, ast.Subscript) and isinstance(n.ctx, ast.Load):
                return True
            if isinstance(n, (ast.Await, ast.Yield, ast.YieldFrom)):
                return True
        return False

    def may_raise_stmt(self, st: ast.stmt) -> bool:
        if isinstance(st, (ast.Pass, ast.Break, ast.Continue, ast.Global, ast.Nonlocal, ast.Import, ast.ImportFrom)):
            return False
        if isinstance(st, ast.Assign):
            return self.may_raise_expr(st.value) or any(self.may_raise_expr(t) for t in st.targets if not isinstance(t, ast.Name))
        if isinstance(st, ast.AnnAssign):
            return self.may_raise_expr(st.value)
        if isinstance(st, ast.AugAssign):
            return self.may_raise_expr(st.value)
        if isinstance(st, ast.Expr):
            return self.may_raise_expr(st.value)
        if isinstance(st, ast.Delete):
            return True
        return True

    # --- transfer functions -------------------------------------------------
    def simple(self, state: State, st: ast.stmt) -> Iterable[State]:
        """States after a simple statement completed normally."""
        return (state,)

    def simple_exc(self, state: State, st: ast.stmt) -> Iterable[State]:
        """States in which the exception leaves a simple statement (default: unchanged pre-state)."""
        return (state,)

    def cond(self, state: State, test: ast.expr) -> tuple[Iterable[State], Iterable[State]]:
        """(states where test is true, states where it is false)"""
        return (state,), (state,)

    def on_return(self, state: State, st: ast.Return) -> Iterable[State]:
        return (state,)

    def on_raise(self, state: State, st: ast.Raise) -> Iterable[State]:
        return (state,)

    def bind_loop(self, state: State, st: ast.For) -> Iterable[State]:
        return (state,)

    def enter_handler(self, state: State, h: ast.ExceptHandler) -> Iterable[State]:
        return (state,)

    def enter_with(self, state: State, st: ast.With) -> Iterable[State]:
        return (state,)


def is_catch_all(h: ast.ExceptHandler, sem: Semantics) -> bool:
    if h.type is None:
        return True
    names = []
    if isinstance(h.type, ast.Tuple):
        names = [dotted(e) for e in h.type.elts]
    else:
        names = [dotted(h.type)]
    for n in names:
        if n in ("BaseException",):
            return True
        if n in ("Exception",) and sem.exception_is_catch_all:
            return True
    return False


class Interp:
    def __init__(self, sem: Semantics, max_rounds: int = 6, loops_as_stmts: bool = False) -> None:
        self.sem = sem
        self.max_rounds = max_rounds
        self.loops_as_stmts = loops_as_stmts

    def block(self, stmts: list[ast.stmt], states: set) -> Outcome:
        out = Outcome()
        cur = set(states)
        for st in stmts:
            if not cur:
                break
            o = self.stmt(st, cur)
            out.ret |= o.ret
            out.exc |= o.exc
            out.brk |= o.brk
            out.cont |= o.cont
            cur = o.normal
        out.normal = cur
        return out

    def stmt(self, st: ast.stmt, states: set) -> Outcome:
        sem = self.sem
        out = Outcome()
        if isinstance(st, (ast.FunctionDef, ast.AsyncFunctionDef, ast.ClassDef)):
            out.normal = set(states)
            return out
        if isinstance(st, ast.If):
            t_states: set = set()
            f_states: set = set()
            for s in states:
                if sem.may_raise_expr(st.test):
                    out.exc |= set(sem.simple_exc(s, st))  # type: ignore[arg-type]
                a, b = sem.cond(s, st.test)
                t_states |= set(a)
                f_states |= set(b)
            o1 = self.block(st.body, t_states)
            o2 = self.block(st.orelse, f_states)
            out.merge(o1)
            out.merge(o2)
            return out
        if isinstance(st, (ast.For, ast.AsyncFor, ast.While)) and not self.loops_as_stmts:
            return self.loop(st, states)
        if isinstance(st, ast.Try):
            return self.try_(st, states)
        if isinstance(st, (ast.With, ast.AsyncWith)):
            entered: set = set()
            for s in states:
                if any(sem.may_raise_expr(i.context_expr) for i in st.items):
                    out.exc.add(s)
                entered |= set(sem.enter_with(s, st))  # type: ignore[arg-type]
            out.merge(self.block(st.body, entered))
            return out
        if isinstance(st, ast.Return):
            for s in states:
                if sem.may_raise_expr(st.value):
                    out.exc |= set(sem.simple_exc(s, st))
                out.ret |= set(sem.on_return(s, st))
            return out
        if isinstance(st, ast.Raise):
            for s in states:
                out.exc |= set(sem.on_raise(s, st))
            return out
        if isinstance(st, ast.Break):
            out.brk = set(states)
            return out
        if isinstance(st, ast.Continue):
            out.cont = set(states)
            return out
        if isinstance(st, ast.Assert):
            for s in states:
                a, b = sem.cond(s, st.test)
                out.normal |= set(a)
                if getattr(sem, "assert_may_fail", True):
                    out.exc |= set(b)
            return out
        if isinstance(st, ast.Match):
            raise Unsupported("match statement", st)
        # simple statement
        for s in states:
            if sem.may_raise_stmt(st):
                out.exc |= set(sem.simple_exc(s, st))
            out.normal |= set(sem.simple(s, st))
        return out

    def loop(self, st, states: set) -> Outcome:
        sem = self.sem
        out = Outcome()
        is_for = isinstance(st, (ast.For, ast.AsyncFor))
        head: set = set(states)
        seen: set = set()
        exits: set = set()
        rounds = 0
        while True:
            new = head - seen
            if not new:
                break
            rounds += 1
            if rounds > self.max_rounds:
                raise Unsupported("loop fixpoint not reached", st)
            seen |= new
            body_in: set = set()
            for s in new:
                if is_for:
                    if sem.may_raise_expr(st.iter):
                        out.exc |= set(sem.simple_exc(s, st))
                    if not _endless(st.iter):
                        exits.add(s)  # iterator exhausted
                    body_in |= set(sem.bind_loop(s, st))
                else:
                    if sem.may_raise_expr(st.test):
                        out.exc |= set(sem.simple_exc(s, st))
                    a, b = sem.cond(s, st.test)
                    body_in |= set(a)
                    exits |= set(b)
            o = self.block(st.body, body_in)
            out.ret |= o.ret
            out.exc |= o.exc
            head = o.normal | o.cont
            # break leaves the loop without running orelse
            out.normal |= o.brk
        if st.orelse:
            o2 = self.block(st.orelse, exits)
            out.merge(o2)
        else:
            out.normal |= exits
        return out

    def try_(self, st: ast.Try, states: set) -> Outcome:
        sem = self.sem
        body = self.block(st.body, states)
        res = Outcome()
        res.ret |= body.ret
        res.brk |= body.brk
        res.cont |= body.cont
        # else clause runs after normal completion of the body, outside the handlers' protection
        if st.orelse:
            o = self.block(st.orelse, body.normal)
            res.merge(o)
        else:
            res.normal |= body.normal
        remaining = set(body.exc)
        for h in st.handlers:
            if not remaining:
                break
            entered: set = set()
            for s in remaining:
                entered |= set(sem.enter_handler(s, h))
            o = self.block(h.body, entered)
            res.merge(o)
            if is_catch_all(h, sem):
                remaining = set()
        res.exc |= remaining
        if st.finalbody:
            fin = Outcome()
            for kind in ("normal", "ret", "exc", "brk", "cont"):
                ins = getattr(res, kind)
                if not ins:
                    continue
                o = self.block(st.finalbody, ins)
                # finally completing normally resumes the pending outcome
                getattr(fin, kind).update(o.normal)
                fin.ret |= o.ret
                fin.exc |= o.exc
                fin.brk |= o.brk
                fin.cont |= o.cont
            return fin
        return res


# ---------------------------------------------------------------------------
# Path enumeration of loop-free regions
# ---------------------------------------------------------------------------


@dataclass(frozen=True)
class Path:
    events: tuple  # ("if", test_src, bool) | ("stmt", ast.stmt) | ("ret", ast.Return) | ...

    def add(self, ev) -> "Path":
        return Path(self.events + (ev,))

    def conds(self) -> list[tuple[ast.expr, bool]]:
        return [(e[1], e[2]) for e in self.events if e[0] == "if"]

    def stmts(self) -> list[ast.stmt]:
        return [e[1] for e in self.events if e[0] in ("stmt", "ret", "raise")]


class _PathSem(Semantics):
    def may_raise_expr(self, e):  # paths: exceptional edges are not enumerated
        return False

    def may_raise_stmt(self, st):
        return False

    def simple(self, state: Path, st):
        return (state.add(("stmt", st)),)

    def cond(self, state: Path, test):
        return (state.add(("if", test, True)),), (state.add(("if", test, False)),)

    def on_return(self, state: Path, st):
        return (state.add(("ret", st)),)

    def on_raise(self, state: Path, st):
        return (state.add(("raise", st)),)

    def bind_loop(self, state: Path, st):
        return (state.add(("loop", st)),)


def enumerate_paths(stmts: list[ast.stmt], loops_as_stmts: bool = False) -> dict[str, list[Path]]:
    """All paths through a loop-free statement list (use it on loop bodies and
    straight-line functions).  With ``loops_as_stmts`` a loop is one opaque
    ("stmt", <For>) event of the path."""
    if not loops_as_stmts:
        for st in stmts:
            for n in walk_local(st):
                if isinstance(n, (ast.For, ast.While, ast.AsyncFor)):
                    raise Unsupported("path enumeration over a region that contains a loop", n)
    it = Interp(_PathSem(), loops_as_stmts=loops_as_stmts)
    o = it.block(stmts, {Path(())})
    return {
        "normal": sorted(o.normal, key=lambda p: len(p.events)),
        "ret": sorted(o.ret, key=lambda p: len(p.events)),
        "exc": sorted(o.exc, key=lambda p: len(p.events)),
        "brk": sorted(o.brk, key=lambda p: len(p.events)),
        "cont": sorted(o.cont, key=lambda p: len(p.events)),
    }
