"""Global scan of attribute writes, frozen-bypass writes and in-place container mutation (component G)."""
from __future__ import annotations

import ast
from dataclasses import dataclass

from .astutil import dotted, norm, root_name, walk_body
from .srcmodel import Func, Mod, Repo

MUTATORS = {
    "append", "appendleft", "extend", "extendleft", "insert", "pop", "popleft", "popitem", "remove", "clear", "update",
    "add", "discard", "sort", "reverse", "setdefault", "__setitem__", "__delitem__", "difference_update",
    "intersection_update", "symmetric_difference_update",
}


@dataclass
class Write:
    func: Func
    node: ast.AST
    kind: str  # object.__setattr__ | setattr | attr-store | attr-del | dict-store | dunder-setattr
    receiver: ast.expr
    attr: str | None  # constant attribute name when known

    @property
    def recv(self) -> str:
        return norm(self.receiver)


def scan_writes(repo: Repo, mods: list[Mod]) -> list[Write]:
    out: list[Write] = []
    for f in repo.functions(mods):
        for n in walk_body(f.node.body):
            if isinstance(n, ast.Call):
                name = dotted(n.func)
                if name in ("object.__setattr__", "object.__delattr__") and n.args:
                    attr = n.args[1].value if len(n.args) > 1 and isinstance(n.args[1], ast.Constant) else None
                    out.append(Write(f, n, name, n.args[0], attr))
                elif name in ("setattr", "delattr") and n.args:
                    attr = n.args[1].value if len(n.args) > 1 and isinstance(n.args[1], ast.Constant) else None
                    out.append(Write(f, n, name, n.args[0], attr))
                elif isinstance(n.func, ast.Attribute) and n.func.attr in ("__setattr__", "__delattr__") and name not in (
                    "object.__setattr__", "object.__delattr__"):
                    recv = n.func.value
                    if isinstance(recv, ast.Call) and dotted(recv.func) == "super" and n.args:
                        # super().__setattr__(name, value) writes self
                        attr = n.args[0].value if isinstance(n.args[0], ast.Constant) else None
                        out.append(Write(f, n, "dunder-setattr", ast.Name(id="self", ctx=ast.Load()), attr))
                    else:
                        attr = n.args[0].value if n.args and isinstance(n.args[0], ast.Constant) else None
                        out.append(Write(f, n, "dunder-setattr", recv, attr))
            elif isinstance(n, ast.Attribute) and isinstance(n.ctx, (ast.Store, ast.Del)):
                out.append(Write(f, n, "attr-store" if isinstance(n.ctx, ast.Store) else "attr-del", n.value, n.attr))
            elif isinstance(n, ast.Subscript) and isinstance(n.ctx, (ast.Store, ast.Del)):
                v = n.value
                if isinstance(v, ast.Attribute) and v.attr == "__dict__":
                    out.append(Write(f, n, "dict-store", v.value, None))
                elif isinstance(v, ast.Call) and dotted(v.func) == "vars" and v.args:
                    out.append(Write(f, n, "dict-store", v.args[0], None))
    return out


@dataclass
class Mutation:
    func: Func
    node: ast.AST
    method: str
    target: ast.expr  # the container expression being mutated


def scan_mutations(repo: Repo, mods: list[Mod]) -> list[Mutation]:
    out: list[Mutation] = []
    for f in repo.functions(mods):
        for n in walk_body(f.node.body):
            if isinstance(n, ast.Call) and isinstance(n.func, ast.Attribute) and n.func.attr in MUTATORS:
                out.append(Mutation(f, n, n.func.attr, n.func.value))
            elif isinstance(n, ast.Subscript) and isinstance(n.ctx, (ast.Store, ast.Del)):
                out.append(Mutation(f, n, "subscript-store" if isinstance(n.ctx, ast.Store) else "subscript-del", n.value))
            elif isinstance(n, ast.AugAssign) and isinstance(n.target, (ast.Attribute, ast.Subscript)):
                out.append(Mutation(f, n, "augassign", n.target))
    return out


def params(fn: ast.FunctionDef) -> dict[str, ast.expr | None]:
    a = fn.args
    out: dict[str, ast.expr | None] = {}
    for p in a.posonlyargs + a.args + a.kwonlyargs:
        out[p.arg] = p.annotation
    if a.vararg:
        out[a.vararg.arg] = a.vararg.annotation
    if a.kwarg:
        out[a.kwarg.arg] = a.kwarg.annotation
    return out


def local_bindings(fn: ast.FunctionDef, name: str) -> list[ast.AST]:
    """Every node that binds ``name`` in the function (assign values, loop iters, with items...)."""
    out: list[ast.AST] = []
    for n in walk_body(fn.body):
        if isinstance(n, ast.Assign):
            for t in n.targets:
                if any(isinstance(x, ast.Name) and isinstance(x.ctx, ast.Store) and x.id == name for x in ast.walk(t)):
                    out.append(n)
        elif isinstance(n, (ast.AnnAssign, ast.AugAssign)) and isinstance(n.target, ast.Name) and n.target.id == name:
            out.append(n)
        elif isinstance(n, (ast.For, ast.AsyncFor)) and any(isinstance(x, ast.Name) and isinstance(x.ctx, ast.Store) and x.id == name for x in ast.walk(n.target)):
            out.append(n)
        elif isinstance(n, ast.NamedExpr) and n.target.id == name:
            out.append(n)
        elif isinstance(n, ast.comprehension) and any(isinstance(x, ast.Name) and isinstance(x.ctx, ast.Store) and x.id == name for x in ast.walk(n.target)):
            out.append(n)
        elif isinstance(n, (ast.With, ast.AsyncWith)):
            for it in n.items:
                if it.optional_vars is not None and any(isinstance(x, ast.Name) and isinstance(x.ctx, ast.Store) and x.id == name for x in ast.walk(it.optional_vars)):
                    out.append(n)
        elif isinstance(n, ast.ExceptHandler) and n.name == name:
            out.append(n)
    return out
