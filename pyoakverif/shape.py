"""Shape distance of a function to the audited tree.

The rules were confirmed by hand against the functions of the pinned tree (Appendix A of DESIGN.md).  A verdict that rests on *not
finding* something ("no loop over the children", "the store is missing") is only as good as the rule's reading of the function; once a
function has been rewritten beyond recognition that reading is unreliable, and such a verdict is withheld (analysis-incomplete) instead
of being reported as a violation.  Verdicts that name a construct that *is* there (positive patterns) are not affected.

The distance is syntactic and deliberately simple: one line per statement (headers for compound statements, nesting depth included),
compared with difflib's ratio against the same lines of the audited function (baseline_shapes.json, written by tools/mkbaseline.py).
"""
from __future__ import annotations

import ast
import difflib
import json
from functools import lru_cache
from pathlib import Path

THRESHOLD = 0.5
MIN_DELTA = 8  # a function counts as rewritten only if at least this many of its shape lines were removed / added (small functions never do)
FILE = Path(__file__).resolve().parent.parent / "baseline_shapes.json"


def lines_of(fn: ast.AST) -> list[str]:
    out: list[str] = []

    def rec(stmts: list[ast.stmt], d: int) -> None:
        for st in stmts:
            if isinstance(st, (ast.FunctionDef, ast.AsyncFunctionDef, ast.ClassDef)):
                out.append(f"{d}def {st.name}")
                if not isinstance(st, ast.ClassDef):
                    rec(st.body, d + 1)
                continue
            if isinstance(st, ast.Expr) and isinstance(st.value, ast.Constant) and isinstance(st.value.value, str):
                continue
            if isinstance(st, (ast.If, ast.While)):
                out.append(f"{d}{type(st).__name__} {ast.unparse(st.test)}")
                rec(st.body, d + 1)
                rec(st.orelse, d + 1)
            elif isinstance(st, (ast.For, ast.AsyncFor)):
                out.append(f"{d}For {ast.unparse(st.target)} in {ast.unparse(st.iter)}")
                rec(st.body, d + 1)
                rec(st.orelse, d + 1)
            elif isinstance(st, ast.Try):
                out.append(f"{d}Try")
                rec(st.body, d + 1)
                for h in st.handlers:
                    out.append(f"{d}except {ast.unparse(h.type) if h.type else ''}")
                    rec(h.body, d + 1)
                rec(st.orelse, d + 1)
                rec(st.finalbody, d + 1)
            elif isinstance(st, (ast.With, ast.AsyncWith)):
                out.append(f"{d}With")
                rec(st.body, d + 1)
            elif isinstance(st, ast.Match):
                out.append(f"{d}Match {ast.unparse(st.subject)}")
                for c in st.cases:
                    rec(c.body, d + 1)
            else:
                out.append(f"{d}{ast.unparse(st)}")

    rec(getattr(fn, "body", []), 0)
    return out


@lru_cache(maxsize=1)
def baseline() -> dict[str, list[str]]:
    try:
        return json.loads(FILE.read_text())
    except (OSError, ValueError):
        return {}


def rewritten(key: str, fn: ast.AST | None) -> tuple[bool, float | None, int]:
    """(is the function rewritten beyond recognition?, similarity, number of shape lines removed + added)"""
    base = baseline().get(key)
    if fn is None:
        return False, None, 0
    cur = lines_of(fn)
    if base is None:
        return len(cur) >= MIN_DELTA, None, len(cur)
    if cur == base:
        return False, 1.0, 0
    sm = difflib.SequenceMatcher(None, base, cur)
    same = sum(b.size for b in sm.get_matching_blocks())
    delta = (len(base) - same) + (len(cur) - same)
    ratio = round(sm.ratio(), 3)
    return (ratio < THRESHOLD and delta >= MIN_DELTA), ratio, delta


def similarity(key: str, fn: ast.AST | None) -> float | None:
    """1.0 = as audited; None = no baseline recorded for this function (a function of later origin)."""
    base = baseline().get(key)
    if base is None or fn is None:
        return None
    cur = lines_of(fn)
    if cur == base:
        return 1.0
    return round(difflib.SequenceMatcher(None, base, cur).ratio(), 3)
