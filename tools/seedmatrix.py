#!/venv/bin/python
"""Runs every check against every stored seeded change (scratch worktrees), updates meta.json and prints a markdown table."""
import concurrent.futures as cf
import glob
import json
import os
import subprocess
import sys

HERE = os.path.dirname(os.path.dirname(os.path.abspath(__file__)))
dirs = sorted(glob.glob(os.path.join(HERE, "seeded", "*")))


def one(d):
    r = subprocess.run([os.path.join(HERE, "tools", "seedeval.py"), d, "--json"] + (["--confirm"] if "--confirm" in sys.argv else []), capture_output=True, text=True)
    try:
        return d, json.loads(r.stdout)
    except Exception:
        return d, {"error": (r.stdout + r.stderr)[-300:]}


rows = []
with cf.ThreadPoolExecutor(8) as ex:
    for d, res in ex.map(one, dirs):
        mp = os.path.join(d, "meta.json")
        meta = json.load(open(mp))
        meta["checks_that_fire"] = res.get("fired")
        meta["checks_incomplete"] = res.get("incomplete", [])
        rules = {}
        for p, lines in (res.get("reports") or {}).items():
            rules[p] = sorted({l.split(":")[0] for l in lines if l.startswith("R-")})
        meta["rules_that_fire"] = rules
        if "apply" in res or "error" in res:
            meta["note"] = res.get("apply") or res.get("error")
        json.dump(meta, open(mp, "w"), indent=1)
        own = meta["breaks_property"]
        rows.append((meta["id"], own, own in (res.get("fired") or []), res.get("fired"), rules.get(own, []), res.get("apply") or res.get("error")))
print("| seeded change | breaks | caught by own check (rules) | all checks that fire |")
print("|---|---|---|---|")
for sid, own, hit, fired, rules, err in rows:
    print(f"| {sid} | {own} | {'yes: ' + ', '.join(rules) if hit else 'NO'} | {', '.join(fired or []) or (err or '-')} |")
print(f"\n{sum(1 for r in rows if r[2])}/{len(rows)} caught by the check of the property they were written against; {sum(1 for r in rows if r[3])}/{len(rows)} caught by some check")
