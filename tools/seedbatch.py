#!/venv/bin/python
"""Evaluate every seeded change found under a directory tree in parallel; append JSON lines to the given result file."""
import concurrent.futures as cf
import glob
import json
import os
import subprocess
import sys

HERE = os.path.dirname(os.path.abspath(__file__))
root, outfile = sys.argv[1], sys.argv[2]
done = set()
if os.path.exists(outfile):
    for l in open(outfile):
        try:
            done.add(json.loads(l)["dir"])
        except Exception:
            pass
dirs = sorted(os.path.dirname(p) for p in glob.glob(os.path.join(root, "*", "*", "patch.diff")) if os.path.exists(os.path.join(os.path.dirname(p), "demo.py")))
dirs = [d for d in dirs if d not in done]


def one(d):
    r = subprocess.run([os.path.join(HERE, "seedeval.py"), d, "--confirm", "--json"], capture_output=True, text=True)
    try:
        return json.loads(r.stdout)
    except Exception:
        return {"dir": d, "error": (r.stdout + r.stderr)[-400:]}


with cf.ThreadPoolExecutor(6) as ex:
    for res in ex.map(one, dirs):
        with open(outfile, "a") as f:
            f.write(json.dumps(res) + "\n")
        prop = res["dir"].split("/")[-2].split("-")[0]
        ok = res.get("demo_clean") == 0 and res.get("demo_patched") not in (0, None) and res.get("tests_rc") == 0
        print(res["dir"], "confirmed" if ok else "NOT-CONFIRMED", "own-prop-fired" if prop in res.get("fired", []) else "MISSED", "fired=", res.get("fired"), "incomplete=", res.get("incomplete"), res.get("error", "")[:100])
