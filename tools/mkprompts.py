#!/venv/bin/python
"""Writes the prompts for a held-out round of sub-agents (one per property): only the property text, the titles of earlier
seeded changes (to avoid repeats) and a scratch worktree are given -- nothing of the verification machinery.
usage: mkprompts.py <worktree-root> <out-root>   (prompts go to <out-root>/prompts/Cxx.txt)"""
import glob
import json
import os
import sys

HERE = os.path.dirname(os.path.dirname(os.path.abspath(__file__)))
wtroot, outroot = sys.argv[1], sys.argv[2]
os.makedirs(os.path.join(outroot, "prompts"), exist_ok=True)
props = {}
for l in open(os.path.join(HERE, "properties.jsonl")):
    d = json.loads(l)
    props[d["id"]] = d
for pid, d in props.items():
    earlier = []
    for sd in sorted(glob.glob(os.path.join(HERE, "seeded", f"{pid}-s*"))):
        first = open(os.path.join(sd, "notes.md")).readline().strip().lstrip("# ").strip()
        earlier.append(first)
    anchors = ", ".join(sorted({a.get("file", a) if isinstance(a, dict) else str(a) for a in d.get("anchors", [])}))
    wt = f"{wtroot}/{pid}"
    out = f"{outroot}/{pid}-out"
    prompt = f"""You are working in a scratch git worktree of the Python library `pyoak` (ASTs as frozen dataclasses) at {wt}. Work ONLY inside {wt} and write your results ONLY under {out}. Do not read or touch /repo, /verif or anything else outside those two directories (other than using the interpreter /venv/bin/python). Never use `git stash` (the stash is shared between worktrees); to restore the tree use `git checkout -- .` and delete files you added.

How to run things: `cd {wt} && PYTHONPATH=src /venv/bin/python ...` uses the worktree's copy of the library (check with `import pyoak; print(pyoak.__file__)`). The test-suite: `cd {wt} && PYTHONPATH=src /venv/bin/python -m pytest -q -p no:cacheprovider` (244 tests, ~5 s, all pass on the clean tree). There is no network. When you kill a process of yours, kill it by PID, never by name pattern.

The library satisfies this property (implemented mainly in: {anchors}):

  {pid} — {d['title']}
  STATEMENT: {d['statement']}

You have TWO independent tasks. Read the relevant source first (including the helpers and callers of the main functions; the property usually depends on more than one function).

TASK A — three BREAKING changes. Produce 3 different small source changes, each of which makes the library violate the property above for some inputs while (1) the library still imports and (2) the full test-suite still passes (244 passed). Each should look like something a maintainer could plausibly commit (an "optimisation", a "simplification", a well-meant "fix", a refactoring that is subtly not equivalent, a new convenience feature with a side effect), and needs something specific to manifest (a particular shape of input, an option, an order of operations, a history of calls) — not a change that breaks every use. They must differ from each other in mechanism and location; at least one of them should be in a helper, caller or sibling of the most obvious function rather than in that function itself, and at least one should involve state that outlives a call (a cache, a registry, a class attribute, an object reused between calls) or an error path. They should NOT repeat these earlier ones: {"; ".join(earlier) or "(none)"}.
For each k = 1..3 create {out}/seed$k containing:
  - patch.diff : `git diff` against the clean worktree HEAD (must apply with `git apply` in a clean checkout),
  - demo.py    : a self-contained script (run as `PYTHONPATH=src /venv/bin/python demo.py` from the worktree root) that exits 0 on the clean tree and exits 1 (printing what went wrong) with the patch applied — it demonstrates the violation of the property through the public API,
  - notes.md   : first line a one-line title; then what was changed, why it breaks the property, what is needed for it to manifest, and the test-suite result with the patch (must be 244 passed).

TASK B — four behaviour-PRESERVING refactorings (the opposite of task A). Produce 4 different refactorings of code that implements this property, the kind of clean-up a maintainer would do in a normal pull request, each leaving the observable behaviour exactly the same for EVERY input (not only for the tests). Be bolder than cosmetic renames — restructure, and combine two or three techniques in each refactoring — but stay strictly equivalent. At least one of the four should be a from-scratch re-implementation of one function in your own style (different control structure, different intermediate data, same observable behaviour), and at least one should touch two functions or two modules that cooperate. Use a varied mix across the four, e.g.: extract a private helper function or method (also with several return statements, also a generator or a small private class / NamedTuple) or inline one; split a long function into steps; merge duplicated branches; replace a loop by a comprehension / any() / all() / next() / itertools or the other way round; turn nested if/else into guard clauses, `match` statements or a lookup table; introduce or remove intermediate locals; rename locals and private helpers; reorder independent statements; keyword vs positional arguments; conditional expressions vs if statements; walrus operator; `dict.setdefault` / `dict.get` / `try: d[k] except KeyError` forms; f-strings vs concatenation vs `str.join` / `str.format`; tuple unpacking in loop headers; `for ... else`; `while` vs `for`; early `continue`; add logging, comments, asserts on things that are always true, or type annotations; move a constant to module level; de Morgan / inverted conditions.
Do NOT change public signatures or behaviour in any corner case (falsy nodes that define __len__/__bool__, twin nodes with equal content, None vs empty tuple, exceptions raised and their types and messages, order of results, recursion depth limits). If you are not sure a rewrite is equivalent for all inputs, do not use it.
For each k = 1..4 create {out}/ref$k containing:
  - patch.diff : `git diff` against the clean worktree HEAD,
  - notes.md   : what was rewritten and a short argument why behaviour is unchanged for all inputs, plus the test-suite result with the patch (must be 244 passed).

Verify everything yourself (apply each patch on the clean tree, run the full suite, run the demos on clean and patched trees; for task B compare results with and without the patch on ad-hoc inputs of your own), and leave the worktree clean (`git status` shows nothing) when you finish. Work on one patch at a time.

Finish with a short list: one line per produced directory saying what it changes and where."""
    open(os.path.join(outroot, "prompts", f"{pid}.txt"), "w").write(prompt)
print("written", len(props))
