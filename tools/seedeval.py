#!/venv/bin/python
"""tools/seedeval.py <dir-with-patch.diff-and-demo.py> [--props C01,C05] [--confirm]

Evaluates one seeded change on a scratch copy of /repo (outside /repo and /verif, removed afterwards):
  --confirm : demo passes on the clean copy, fails with the patch, and the 244-test suite passes with the patch;
  always    : runs ./check for the given properties (default: all 20) against the patched copy and prints which fire.
"""
import argparse
import json
import os
import shutil
import subprocess
import sys
import tempfile

HERE = os.path.dirname(os.path.dirname(os.path.abspath(__file__)))
ALL = [f"C{i:02d}" for i in range(1, 21)]


def sh(cmd, cwd, env=None, timeout=600):
    r = subprocess.run(cmd, cwd=cwd, env=env, capture_output=True, text=True, timeout=timeout, shell=isinstance(cmd, str))
    return r.returncode, r.stdout + r.stderr


def main():
    ap = argparse.ArgumentParser()
    ap.add_argument("dir")
    ap.add_argument("--props", default=",".join(ALL))
    ap.add_argument("--confirm", action="store_true")
    ap.add_argument("--json", action="store_true")
    ap.add_argument("--tests", action="store_true", help="run the test-suite with the patch (no demo needed)")
    a = ap.parse_args()
    d = os.path.abspath(a.dir)
    patch = os.path.join(d, "patch.diff")
    demo = os.path.join(d, "demo.py")
    tmp = tempfile.mkdtemp(prefix="pyoakverif-seed-")
    res = {"dir": d}
    try:
        subprocess.run(["git", "-C", "/repo", "worktree", "add", "--detach", "-q", os.path.join(tmp, "wt"), "HEAD"], check=True, capture_output=True)
        wt = os.path.join(tmp, "wt")
        env = dict(os.environ, PYTHONPATH=os.path.join(wt, "src"))
        if a.confirm:
            rc, out = sh(["/venv/bin/python", demo], wt, env)
            res["demo_clean"] = rc
        rc, out = sh(["git", "apply", patch], wt)
        if rc != 0:
            # stored patches were written against 1abffb4; a later one-line `fix:` commit next to a hunk only disturbs its context lines
            rc, out = sh(["git", "apply", "-C1", patch], wt)
            if rc == 0:
                res["applied_with_reduced_context"] = True
        if rc != 0:
            res["apply"] = out.strip()[:300]
            print(json.dumps(res) if a.json else res)
            return 2
        if a.confirm:
            rc, out = sh(["/venv/bin/python", demo], wt, env)
            res["demo_patched"] = rc
        if a.confirm or a.tests:
            rc, out = sh(["/venv/bin/python", "-m", "pytest", "-q", "-p", "no:cacheprovider", "-x"], wt, env)
            res["tests"] = out.strip().splitlines()[-1] if out.strip() else ""
            res["tests_rc"] = rc
        fired, incomplete, lines = [], [], {}
        cenv = dict(os.environ, PYOAK_VERIF_REPO=wt, PYOAK_VERIF_EVIDENCE_DIR=os.path.join(tmp, "ev"), PYOAK_VERIF_OUT_DIR=os.path.join(tmp, "out"))
        for p in a.props.split(","):
            rc, out = sh([os.path.join(HERE, "check"), p], HERE, cenv)
            if rc == 1:
                fired.append(p)
                lines[p] = [l.strip() for l in out.splitlines() if l.startswith("  R-")][:3]
            elif rc == 2:
                incomplete.append(p)
                lines[p] = [l.strip() for l in out.splitlines() if "INCOMPLETE" in l or "ERROR" in l][:2]
        res.update({"fired": fired, "incomplete": incomplete, "reports": lines})
        print(json.dumps(res, indent=1) if a.json else res)
        return 0
    finally:
        subprocess.run(["git", "-C", "/repo", "worktree", "remove", "--force", os.path.join(tmp, "wt")], capture_output=True)
        shutil.rmtree(tmp, ignore_errors=True)


if __name__ == "__main__":
    sys.exit(main())
