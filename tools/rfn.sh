#!/bin/bash
# tools/rfn.sh <refactor-id> : run all 20 checks on a stored refactoring, print alarms / incompletes
"$(dirname "$0")/rf1.sh" "$1" "${2:-}"
