#!/bin/bash
# tools/rf1.sh C06-r1 C06[,C07]  : run the given checks on one stored refactoring and print the reports
/venv/bin/python "$(dirname "$0")/seedeval.py" "$(dirname "$0")/../$( [ -d "$(dirname "$0")/../seeded/$1" ] && echo seeded || echo refactors )/$1" --props "${2:-C01,C02,C03,C04,C05,C06,C07,C08,C09,C10,C11,C12,C13,C14,C15,C16,C17,C18,C19,C20}" --json | /venv/bin/python -c "
import json,sys
r=json.load(sys.stdin)
print('fired',r.get('fired'),'incomplete',r.get('incomplete'), r.get('apply',''))
for p,ls in (r.get('reports') or {}).items():
    for l in ls: print('  ',p,l[:400])
"
