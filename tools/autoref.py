#!/venv/bin/python
"""tools/autoref.py [--keep] [--only NAME]

Mechanical behaviour-preserving rewrites of the WHOLE package (every function of src/pyoak at once), one scratch copy per
rewrite (outside /repo and /verif, removed afterwards): the test-suite must pass on the copy and all 20 checks must stay
quiet.  Complements the hand-made refactorings of the sub-agents with transformations applied everywhere:

  rename      every plain local (bound only by assignment / for / walrus in its own scope) gets a new name
  notis       `a is not b` -> `not a is b`,  `a not in b` -> `not a in b`
  swapis      operands of `is` / `is not` swapped
  invertif    `if c: A else: B` -> `if not c: B else: A`   (only when an else branch exists)
  testlocal   `if <test>:` -> `_t = <test>; if _t:`   (simple statements context only, no elif chains / walrus)
  elsereturn  `if c: ...return; rest` -> `if c: ...return else: rest`  (guard clause -> nested)
  annot       every `x = v` of a first binding gets an annotation `x: Any = v` (typing.Any imported)
"""
import ast
import concurrent.futures as cf
import copy
import os
import shutil
import subprocess
import sys
import tempfile

HERE = os.path.dirname(os.path.dirname(os.path.abspath(__file__)))
ALL = [f"C{i:02d}" for i in range(1, 21)]


# --------------------------------------------------------------------------------------------- transformations
def own_scope_nodes(fn):
    """Nodes of the function's own scope (not inside nested function / lambda / class bodies; comprehensions included)."""
    out = []
    stack = list(fn.body)
    while stack:
        n = stack.pop()
        out.append(n)
        for c in ast.iter_child_nodes(n):
            if isinstance(c, (ast.FunctionDef, ast.AsyncFunctionDef, ast.Lambda, ast.ClassDef)):
                continue
            stack.append(c)
    return out


class Rename(ast.NodeTransformer):
    def visit_FunctionDef(self, fn):
        self.generic_visit(fn)
        a = fn.args
        params = {p.arg for p in a.posonlyargs + a.args + a.kwonlyargs} | ({a.vararg.arg} if a.vararg else set()) | ({a.kwarg.arg} if a.kwarg else set())
        own = own_scope_nodes(fn)
        comp_bound = set()
        for n in own:
            if isinstance(n, ast.comprehension):
                comp_bound |= {x.id for x in ast.walk(n.target) if isinstance(x, ast.Name)}
        bound = {n.id for n in own if isinstance(n, ast.Name) and isinstance(n.ctx, ast.Store)} - comp_bound
        banned = set(params)
        for n in own:
            if isinstance(n, (ast.Global, ast.Nonlocal)):
                banned |= set(n.names)
            if isinstance(n, ast.ExceptHandler) and n.name:
                banned.add(n.name)
            if isinstance(n, (ast.Import, ast.ImportFrom)):
                banned |= {(al.asname or al.name).split(".")[0] for al in n.names}
            if isinstance(n, ast.Name) and isinstance(n.ctx, ast.Del):
                banned.add(n.id)
            if isinstance(n, (ast.With, ast.AsyncWith)):
                for it in n.items:
                    if it.optional_vars is not None:
                        banned |= {x.id for x in ast.walk(it.optional_vars) if isinstance(x, ast.Name)}
        # nested scopes that bind or declare the same name
        for n in ast.walk(fn):
            if n is fn:
                continue
            if isinstance(n, (ast.FunctionDef, ast.AsyncFunctionDef, ast.Lambda)):
                aa = n.args
                banned |= {p.arg for p in aa.posonlyargs + aa.args + aa.kwonlyargs}
                if not isinstance(n, ast.Lambda):
                    banned.add(n.name)
                    for m in ast.walk(n):
                        if isinstance(m, ast.Name) and isinstance(m.ctx, ast.Store):
                            banned.add(m.id)
                        if isinstance(m, (ast.Global, ast.Nonlocal)):
                            banned |= set(m.names)
            if isinstance(n, ast.ClassDef):
                banned.add(n.name)
        banned |= comp_bound
        # names that appear inside string constants (code templates) are left alone
        for n in ast.walk(fn):
            if isinstance(n, ast.Constant) and isinstance(n.value, str):
                banned |= {b for b in bound if b in n.value}
        todo = {b for b in bound if b not in banned and not b.startswith("__")}
        if not todo:
            return fn
        mapping = {b: f"{b}_rn" for b in todo}
        for n in ast.walk(fn):
            if isinstance(n, ast.Name) and n.id in mapping:
                n.id = mapping[n.id]
        return fn


class NotIs(ast.NodeTransformer):
    def visit_Compare(self, n):
        self.generic_visit(n)
        if len(n.ops) == 1 and isinstance(n.ops[0], (ast.IsNot, ast.NotIn)):
            op = ast.Is() if isinstance(n.ops[0], ast.IsNot) else ast.In()
            return ast.UnaryOp(op=ast.Not(), operand=ast.Compare(left=n.left, ops=[op], comparators=n.comparators))
        return n


class SwapIs(ast.NodeTransformer):
    def visit_Compare(self, n):
        self.generic_visit(n)
        if len(n.ops) == 1 and isinstance(n.ops[0], (ast.Is, ast.IsNot)) and not any(isinstance(x, ast.NamedExpr) for x in ast.walk(n)):
            return ast.Compare(left=n.comparators[0], ops=n.ops, comparators=[n.left])
        return n


class InvertIf(ast.NodeTransformer):
    def visit_If(self, n):
        self.generic_visit(n)
        if n.orelse and not (len(n.orelse) == 1 and isinstance(n.orelse[0], ast.If)) and not any(isinstance(x, ast.NamedExpr) for x in ast.walk(n.test)):
            return ast.If(test=ast.UnaryOp(op=ast.Not(), operand=n.test), body=n.orelse, orelse=n.body)
        return n


class TestLocal(ast.NodeTransformer):
    def __init__(self):
        self.k = 0

    def _block(self, stmts):
        out = []
        for st in stmts:
            if isinstance(st, ast.If) and not any(isinstance(x, (ast.NamedExpr, ast.Await, ast.Yield)) for x in ast.walk(st.test)) \
                    and not isinstance(st.test, (ast.Name, ast.Constant)):
                self.k += 1
                nm = f"_t{self.k}"
                out.append(ast.Assign(targets=[ast.Name(id=nm, ctx=ast.Store())], value=st.test))
                st.test = ast.Name(id=nm, ctx=ast.Load())
            out.append(st)
        return out

    def generic_visit(self, node):
        super().generic_visit(node)
        for f in ("body", "orelse", "finalbody"):
            b = getattr(node, f, None)
            if isinstance(b, list) and b and isinstance(b[0], ast.stmt):
                if f == "orelse" and isinstance(node, ast.If) and len(b) == 1 and isinstance(b[0], ast.If):
                    continue  # keep elif chains (their tests must stay lazily evaluated)
                if isinstance(node, ast.ClassDef) or isinstance(node, ast.Module):
                    continue
                setattr(node, f, self._block(b))
        return node


class ElseReturn(ast.NodeTransformer):
    def _block(self, stmts):
        for i, st in enumerate(stmts):
            if isinstance(st, ast.If) and not st.orelse and st.body and isinstance(st.body[-1], (ast.Return, ast.Raise, ast.Continue)) and i + 1 < len(stmts):
                rest = self._block(stmts[i + 1:])
                if any(isinstance(x, (ast.FunctionDef, ast.ClassDef)) for x in rest):
                    break
                st.orelse = rest
                return stmts[:i + 1]
        return stmts

    def generic_visit(self, node):
        super().generic_visit(node)
        if isinstance(node, (ast.FunctionDef, ast.For, ast.While)):
            node.body = self._block(node.body)
        return node


class Annot(ast.NodeTransformer):
    def visit_FunctionDef(self, fn):
        self.generic_visit(fn)
        seen = set()
        banned = set()
        for n in ast.walk(fn):
            if isinstance(n, (ast.Global, ast.Nonlocal)):
                banned |= set(n.names)
        new = []
        for st in fn.body:
            if isinstance(st, ast.Assign) and len(st.targets) == 1 and isinstance(st.targets[0], ast.Name) and st.targets[0].id not in seen | banned:
                seen.add(st.targets[0].id)
                new.append(ast.AnnAssign(target=st.targets[0], annotation=ast.Constant(value="object"), value=st.value, simple=1))
            else:
                for n in ast.walk(st):
                    if isinstance(n, ast.Name) and isinstance(n.ctx, ast.Store):
                        seen.add(n.id)
                new.append(st)
        fn.body = new
        return fn


class WhileTrue(ast.NodeTransformer):
    def visit_While(self, n):
        self.generic_visit(n)
        if n.orelse or (isinstance(n.test, ast.Constant) and n.test.value is True):
            return n
        brk = ast.If(test=ast.UnaryOp(op=ast.Not(), operand=n.test), body=[ast.Break()], orelse=[])
        return ast.While(test=ast.Constant(value=True), body=[brk] + n.body, orelse=[])


class IfExpAssign(ast.NodeTransformer):
    def visit_If(self, n):
        self.generic_visit(n)
        if len(n.body) == 1 and len(n.orelse) == 1 and all(isinstance(b, ast.Assign) and len(b.targets) == 1 and isinstance(b.targets[0], ast.Name) for b in (n.body[0], n.orelse[0])) \
                and n.body[0].targets[0].id == n.orelse[0].targets[0].id and not any(isinstance(x, ast.NamedExpr) for x in ast.walk(n)):
            return ast.Assign(targets=[n.body[0].targets[0]], value=ast.IfExp(test=n.test, body=n.body[0].value, orelse=n.orelse[0].value))
        if len(n.body) == 1 and len(n.orelse) == 1 and all(isinstance(b, ast.Return) and b.value is not None for b in (n.body[0], n.orelse[0])):
            return ast.Return(value=ast.IfExp(test=n.test, body=n.body[0].value, orelse=n.orelse[0].value))
        return n


class ExtractArg(ast.NodeTransformer):
    """f(g(x), ...) as a statement / assigned / returned, with f a plain name: the first argument is evaluated into a temporary first."""

    def __init__(self):
        self.k = 0

    def _block(self, stmts):
        out = []
        for st in stmts:
            v = st.value if isinstance(st, (ast.Expr, ast.Assign, ast.Return)) else None
            if isinstance(v, ast.Call) and isinstance(v.func, ast.Name) and v.args and isinstance(v.args[0], ast.Call) \
                    and not any(isinstance(x, (ast.NamedExpr, ast.Yield, ast.YieldFrom, ast.Await, ast.Starred)) for x in ast.walk(v)) \
                    and not (isinstance(st, ast.Assign) and not all(isinstance(t, ast.Name) for t in st.targets)):
                self.k += 1
                nm = f"_a{self.k}"
                out.append(ast.Assign(targets=[ast.Name(id=nm, ctx=ast.Store())], value=v.args[0]))
                v.args[0] = ast.Name(id=nm, ctx=ast.Load())
            out.append(st)
        return out

    def generic_visit(self, node):
        super().generic_visit(node)
        if isinstance(node, (ast.Module, ast.ClassDef)):
            return node
        for f in ("body", "orelse", "finalbody"):
            b = getattr(node, f, None)
            if isinstance(b, list) and b and isinstance(b[0], ast.stmt):
                setattr(node, f, self._block(b))
        return node


class Keywords(ast.NodeTransformer):
    """Positional arguments of calls to the NamedTuple / dataclass-like classes defined in the same module become keywords."""

    def visit_Module(self, m):
        self.fields = {}
        for st in m.body:
            if isinstance(st, ast.ClassDef) and any((isinstance(b, ast.Name) and b.id == "NamedTuple") or (isinstance(b, ast.Attribute) and b.attr == "NamedTuple") for b in st.bases):
                self.fields[st.name] = [x.target.id for x in st.body if isinstance(x, ast.AnnAssign) and isinstance(x.target, ast.Name)]
        self.generic_visit(m)
        return m

    def visit_Call(self, c):
        self.generic_visit(c)
        if isinstance(c.func, ast.Name) and c.func.id in self.fields and c.args and not any(isinstance(a, ast.Starred) for a in c.args) \
                and len(c.args) <= len(self.fields[c.func.id]):
            names = self.fields[c.func.id]
            c.keywords = [ast.keyword(arg=names[i], value=a) for i, a in enumerate(c.args)] + c.keywords
            c.args = []
        return c


class FormatCalls(ast.NodeTransformer):
    """f"a{x}b{y!r}"  ->  "a{}b{!r}".format(x, y)   (no format specs, no nested f-strings)"""
    def visit_JoinedStr(self, n):
        self.generic_visit(n)
        fmt, args = "", []
        for v in n.values:
            if isinstance(v, ast.Constant) and isinstance(v.value, str):
                fmt += v.value.replace("{", "{{").replace("}", "}}")
            elif isinstance(v, ast.FormattedValue) and v.format_spec is None and not any(isinstance(x, ast.JoinedStr) for x in ast.walk(v.value)):
                fmt += "{" + ({-1: "", 115: "!s", 114: "!r", 97: "!a"}[v.conversion]) + "}"
                args.append(v.value)
            else:
                return n
        if not args:
            return n
        return ast.copy_location(ast.Call(func=ast.Attribute(value=ast.Constant(value=fmt), attr="format", ctx=ast.Load()), args=args, keywords=[]), n)


class CompToLoop(ast.NodeTransformer):
    """x = [E for t in it if c] / {K: V for ...}  (statement level, one generator)  ->  x = []; for t in it: if c: x.append(E)"""
    def __init__(self):
        self.k = 0

    def _block(self, stmts):
        out = []
        for st in stmts:
            v = getattr(st, "value", None)
            if isinstance(st, (ast.Assign, ast.Return)) and isinstance(v, (ast.ListComp, ast.DictComp)) and len(v.generators) == 1 and not v.generators[0].is_async \
                    and (isinstance(st, ast.Return) or (len(st.targets) == 1 and isinstance(st.targets[0], ast.Name)
                                                          and not any(isinstance(x, ast.Name) and x.id == st.targets[0].id for x in ast.walk(v)))):
                self.k += 1
                acc = st.targets[0].id if isinstance(st, ast.Assign) else f"_acc{self.k}"
                g = v.generators[0]
                ren = {x.id: f"{x.id}_c{self.k}" for x in ast.walk(g.target) if isinstance(x, ast.Name)}

                class R(ast.NodeTransformer):
                    def visit_Name(s_, nm):
                        return ast.copy_location(ast.Name(id=ren.get(nm.id, nm.id), ctx=nm.ctx), nm)
                if isinstance(v, ast.DictComp):
                    store = ast.Assign(targets=[ast.Subscript(value=ast.Name(id=acc, ctx=ast.Load()), slice=R().visit(copy.deepcopy(v.key)), ctx=ast.Store())], value=R().visit(copy.deepcopy(v.value)))
                    init = ast.Dict(keys=[], values=[])
                else:
                    store = ast.Expr(value=ast.Call(func=ast.Attribute(value=ast.Name(id=acc, ctx=ast.Load()), attr="append", ctx=ast.Load()), args=[R().visit(copy.deepcopy(v.elt))], keywords=[]))
                    init = ast.List(elts=[], ctx=ast.Load())
                body = [store]
                for c in reversed(g.ifs):
                    body = [ast.If(test=R().visit(copy.deepcopy(c)), body=body, orelse=[])]
                new = [ast.Assign(targets=[ast.Name(id=acc, ctx=ast.Store())], value=init), ast.For(target=R().visit(copy.deepcopy(g.target)), iter=g.iter, body=body, orelse=[])]
                if isinstance(st, ast.Return):
                    new.append(ast.Return(value=ast.Name(id=acc, ctx=ast.Load())))
                for x in new:
                    ast.copy_location(x, st)
                    ast.fix_missing_locations(x)
                out += new
            else:
                out.append(st)
        return out

    def generic_visit(self, node):
        super().generic_visit(node)
        for f in ("body", "orelse", "finalbody"):
            b = getattr(node, f, None)
            if isinstance(b, list) and b and isinstance(b[0], ast.stmt) and not isinstance(node, ast.ClassDef):
                setattr(node, f, self._block(b))
        return node


class IfToMatch(ast.NodeTransformer):
    """if isinstance(x, A): .. elif isinstance(x, B): .. [else: ..]   (x a plain name, A/B names or tuples of names)  ->  match x: case A(): .."""
    def visit_If(self, n):
        self.generic_visit(n)
        chain, cur = [], n
        while True:
            t = cur.test
            if not (isinstance(t, ast.Call) and isinstance(t.func, ast.Name) and t.func.id == "isinstance" and len(t.args) == 2 and isinstance(t.args[0], ast.Name)):
                return n
            classes = t.args[1].elts if isinstance(t.args[1], ast.Tuple) else [t.args[1]]
            if not classes or not all(isinstance(c, (ast.Name, ast.Attribute)) for c in classes) or (chain and t.args[0].id != chain[0][0]):
                return n
            chain.append((t.args[0].id, classes, cur.body))
            if len(cur.orelse) == 1 and isinstance(cur.orelse[0], ast.If):
                cur = cur.orelse[0]
                continue
            tail = cur.orelse
            break
        if len(chain) < 2:
            return n
        cases = []
        for _, classes, body in chain:
            pats = [ast.MatchClass(cls=c, patterns=[], kwd_attrs=[], kwd_patterns=[]) for c in classes]
            cases.append(ast.match_case(pattern=pats[0] if len(pats) == 1 else ast.MatchOr(patterns=pats), guard=None, body=body))
        if tail:
            cases.append(ast.match_case(pattern=ast.MatchAs(pattern=None, name=None), guard=None, body=tail))
        return ast.copy_location(ast.Match(subject=ast.Name(id=chain[0][0], ctx=ast.Load()), cases=cases), n)


class ParamCopy(ast.NodeTransformer):
    """def f(self, p, ...): body   ->   p_in = p ; body[p -> p_in]   for the first plain parameter that is never re-bound"""
    def visit_FunctionDef(self, fn):
        self.generic_visit(fn)
        ps = [a.arg for a in fn.args.args if a.arg not in ("self", "cls")]
        if not ps or any(isinstance(x, (ast.Nonlocal, ast.Global, ast.Lambda, ast.FunctionDef, ast.ClassDef)) for b in fn.body for x in ast.walk(b)):
            return fn
        p_ = ps[0]
        nodes = [x for b in fn.body for x in ast.walk(b)]
        if any(isinstance(x, ast.Name) and x.id == p_ and isinstance(x.ctx, (ast.Store, ast.Del)) for x in nodes) or any(isinstance(x, ast.Name) and x.id == p_ + "_in" for x in nodes):
            return fn
        if not any(isinstance(x, ast.Name) and x.id == p_ for x in nodes):
            return fn
        for x in nodes:
            if isinstance(x, ast.Name) and x.id == p_:
                x.id = p_ + "_in"
        k = 1 if fn.body and isinstance(fn.body[0], ast.Expr) and isinstance(fn.body[0].value, ast.Constant) and isinstance(fn.body[0].value.value, str) else 0
        cp = ast.Assign(targets=[ast.Name(id=p_ + "_in", ctx=ast.Store())], value=ast.Name(id=p_, ctx=ast.Load()))
        ast.copy_location(cp, fn.body[k] if len(fn.body) > k else fn)
        ast.fix_missing_locations(cp)
        fn.body.insert(k, cp)
        return fn


class OrReturn(ast.NodeTransformer):
    """`if c: return True` directly followed by `return E`  ->  `return bool(c) or E`   (and `return False` / `and`)"""
    def _block(self, stmts):
        out, i = [], 0
        while i < len(stmts):
            st = stmts[i]
            nx = stmts[i + 1] if i + 1 < len(stmts) else None
            if isinstance(st, ast.If) and not st.orelse and len(st.body) == 1 and isinstance(st.body[0], ast.Return) and isinstance(st.body[0].value, ast.Constant) \
                    and st.body[0].value.value is True and isinstance(nx, ast.Return) and nx.value is not None \
                    and not any(isinstance(x, (ast.NamedExpr, ast.Yield, ast.YieldFrom, ast.Await)) for x in ast.walk(st.test)):
                r = ast.Return(value=ast.BoolOp(op=ast.Or(), values=[ast.Call(func=ast.Name(id="bool", ctx=ast.Load()), args=[st.test], keywords=[]), nx.value]))
                ast.copy_location(r, st)
                ast.fix_missing_locations(r)
                out.append(r)
                i += 2
                continue
            out.append(st)
            i += 1
        return out

    def generic_visit(self, node):
        super().generic_visit(node)
        for f in ("body", "orelse", "finalbody"):
            b = getattr(node, f, None)
            if isinstance(b, list) and b and isinstance(b[0], ast.stmt) and not isinstance(node, ast.ClassDef):
                setattr(node, f, self._block(b))
        return node


TRANSFORMS = {"formatcalls": FormatCalls, "comptoloop": CompToLoop, "iftomatch": IfToMatch, "paramcopy": ParamCopy, "orreturn": OrReturn, "whiletrue": WhileTrue, "ifexp": IfExpAssign, "extractarg": ExtractArg, "keywords": Keywords, "rename": Rename, "notis": NotIs, "swapis": SwapIs, "invertif": InvertIf, "testlocal": TestLocal, "elsereturn": ElseReturn, "annot": Annot}


def transform_tree(root: str, name: str) -> int:
    n = 0
    for dp, _, fs in os.walk(os.path.join(root, "src", "pyoak")):
        for fnm in fs:
            if not fnm.endswith(".py"):
                continue
            p = os.path.join(dp, fnm)
            src = open(p).read()
            tree = ast.parse(src)
            new = TRANSFORMS[name]().visit(copy.deepcopy(tree))
            ast.fix_missing_locations(new)
            out = ast.unparse(new)
            if out != ast.unparse(tree):
                n += 1
            open(p, "w").write(out + "\n")
    return n


def run(name: str, keep: bool = False) -> dict:
    tmp = tempfile.mkdtemp(prefix="pyoakverif-autoref-")
    wt = os.path.join(tmp, "wt")
    res = {"transform": name}
    try:
        subprocess.run(["git", "-C", "/repo", "worktree", "add", "--detach", "-q", wt, "HEAD"], check=True, capture_output=True)
        res["files_changed"] = transform_tree(wt, name)
        env = dict(os.environ, PYTHONPATH=os.path.join(wt, "src"))
        r = subprocess.run(["/venv/bin/python", "-m", "pytest", "-q", "-p", "no:cacheprovider", "-x"], cwd=wt, env=env, capture_output=True, text=True)
        res["tests"] = (r.stdout.strip().splitlines() or ["?"])[-1]
        res["tests_rc"] = r.returncode
        cenv = dict(os.environ, PYOAK_VERIF_REPO=wt, PYOAK_VERIF_EVIDENCE_DIR=os.path.join(tmp, "ev"), PYOAK_VERIF_OUT_DIR=os.path.join(tmp, "out"))
        fired, incomplete, lines = [], [], {}

        def one(p):
            r = subprocess.run([os.path.join(HERE, "check"), p], cwd=HERE, env=cenv, capture_output=True, text=True)
            return p, r.returncode, r.stdout + r.stderr

        with cf.ThreadPoolExecutor(8) as ex:
            for p, rc, out in ex.map(one, ALL):
                if rc == 1:
                    fired.append(p)
                    lines[p] = [l.strip()[:330] for l in out.splitlines() if l.startswith("  R-")][:4]
                elif rc == 2:
                    incomplete.append(p)
                    lines[p] = [l.strip()[:330] for l in out.splitlines() if "INCOMPLETE" in l or "ERROR" in l or "Error" in l][:3]
        res.update({"fired": fired, "incomplete": incomplete, "reports": lines})
        if keep:
            d = os.path.join("/tmp", f"autoref-{name}")
            shutil.rmtree(d, ignore_errors=True)
            shutil.copytree(os.path.join(wt, "src"), os.path.join(d, "src"))
            res["kept"] = d
        return res
    finally:
        subprocess.run(["git", "-C", "/repo", "worktree", "remove", "--force", wt], capture_output=True)
        shutil.rmtree(tmp, ignore_errors=True)


if __name__ == "__main__":
    keep = "--keep" in sys.argv
    names = list(TRANSFORMS)
    if "--only" in sys.argv:
        names = sys.argv[sys.argv.index("--only") + 1].split(",")
    for nm in names:
        r = run(nm, keep)
        print(f"== {nm}: files changed {r.get('files_changed')}, tests: {r.get('tests')} | ALARM={','.join(r['fired']) or '-'} incomplete={','.join(r['incomplete']) or '-'}")
        for p, ls in r["reports"].items():
            for l in ls:
                print("    ", p, l)
