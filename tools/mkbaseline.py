#!/venv/bin/python
"""Records the qualified names of all functions of the pinned tree (plus fix commits) in baseline_names.json.
Private functions that are not in this list are treated as helpers of later origin and analysed inlined."""
import json, os, sys
sys.path.insert(0, os.path.dirname(os.path.dirname(os.path.abspath(__file__))))
os.environ["PYOAK_VERIF_NO_NORMALIZE"] = "1"
from pyoakverif.srcmodel import Repo
r = Repo()
out = {}
for m in r.mods.values():
    out[m.name] = sorted({f.qualname for f in r.functions([m])})
json.dump(out, open(os.path.join(os.path.dirname(os.path.dirname(os.path.abspath(__file__))), "baseline_names.json"), "w"), indent=0)
print(sum(len(v) for v in out.values()), "functions in", len(out), "modules")
