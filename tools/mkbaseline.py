#!/venv/bin/python
"""Records the qualified names of all functions of the pinned tree (plus fix commits) in baseline_names.json.
Private functions that are not in this list are treated as helpers of later origin and analysed inlined."""
import json, os, sys
sys.path.insert(0, os.path.dirname(os.path.dirname(os.path.abspath(__file__))))
os.environ["PYOAK_VERIF_NO_NORMALIZE"] = "1"
from pyoakverif.srcmodel import Repo
r = Repo()
out = {}
import ast
for m in r.mods.values():
    out[m.name] = sorted({f.qualname for f in r.functions([m])})
    names = set()
    for st in m.tree.body:
        for n in ast.walk(st) if not isinstance(st, (ast.FunctionDef, ast.AsyncFunctionDef, ast.ClassDef)) else []:
            if isinstance(n, ast.Name) and isinstance(n.ctx, ast.Store):
                names.add(n.id)
    out[m.name + "#vars"] = sorted(names)
json.dump(out, open(os.path.join(os.path.dirname(os.path.dirname(os.path.abspath(__file__))), "baseline_names.json"), "w"), indent=0)
print(sum(len(v) for k, v in out.items() if "#" not in k), "functions,", sum(len(v) for k, v in out.items() if "#" in k), "module-level names")

# shapes of the audited functions (see pyoakverif/shape.py)
from pyoakverif.shape import lines_of
shapes = {}
for m in r.mods.values():
    for f in r.functions([m]):
        shapes[f.key] = lines_of(f.raw or f.node)
json.dump(shapes, open(os.path.join(os.path.dirname(os.path.dirname(os.path.abspath(__file__))), "baseline_shapes.json"), "w"), indent=0)
print(len(shapes), "function shapes")
