#!/venv/bin/python
"""Evaluate behaviour-preserving refactorings: apply, run the suite, run all 20 checks; exit 1 of any check = false alarm."""
import concurrent.futures as cf
import glob
import json
import os
import subprocess
import sys

HERE = os.path.dirname(os.path.abspath(__file__))
root, outfile = sys.argv[1], sys.argv[2]
done = set()
if os.path.exists(outfile):
    for l in open(outfile):
        try:
            done.add(json.loads(l)["dir"])
        except Exception:
            pass
dirs = sorted(os.path.dirname(p) for p in glob.glob(os.path.join(root, "*-out", "*", "patch.diff")) + glob.glob(os.path.join(root, "C??-r*", "patch.diff")))
dirs = [d for d in dirs if d not in done]


def one(d):
    r = subprocess.run([os.path.join(HERE, "seedeval.py"), d, "--tests", "--json"], capture_output=True, text=True)
    try:
        return json.loads(r.stdout)
    except Exception:
        return {"dir": d, "error": (r.stdout + r.stderr)[-400:]}


with cf.ThreadPoolExecutor(8) as ex:
    for res in ex.map(one, dirs):
        with open(outfile, "a") as f:
            f.write(json.dumps(res) + "\n")
        print(res["dir"], "tests_ok" if res.get("tests_rc") == 0 else f"TESTS={res.get('tests')}", "ALARM=" + ",".join(res.get("fired") or []) if res.get("fired") else "quiet",
              "incomplete=" + ",".join(res.get("incomplete") or []) if res.get("incomplete") else "", res.get("apply", "") or res.get("error", "")[:80])
