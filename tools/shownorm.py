#!/venv/bin/python
import ast, os, sys
sys.path.insert(0, os.path.dirname(os.path.dirname(os.path.abspath(__file__))))
from pyoakverif.srcmodel import Repo
r = Repo()
for q in sys.argv[2:]:
    f = r.func(sys.argv[1], q)
    print(ast.unparse(f.node)); print()
