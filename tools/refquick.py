#!/venv/bin/python
"""Like refbatch.py but without re-running the test-suite (the stored refactorings were confirmed when they were stored):
all 20 checks against every stored refactoring; prints the ones that are not quiet."""
import concurrent.futures as cf
import glob
import json
import os
import subprocess
import sys

HERE = os.path.dirname(os.path.abspath(__file__))
root = sys.argv[1] if len(sys.argv) > 1 else os.path.join(os.path.dirname(HERE), "refactors")
dirs = sorted(os.path.dirname(p) for p in glob.glob(os.path.join(root, "C??-r*", "patch.diff")) + glob.glob(os.path.join(root, "*-out", "ref*", "patch.diff")))


def one(d):
    r = subprocess.run([os.path.join(HERE, "seedeval.py"), d, "--json"], capture_output=True, text=True)
    try:
        return json.loads(r.stdout)
    except Exception:
        return {"dir": d, "error": (r.stdout + r.stderr)[-400:]}


quiet = 0
with cf.ThreadPoolExecutor(int(os.environ.get("JOBS", "6"))) as ex:
    for res in ex.map(one, dirs):
        if res.get("fired") == [] and not res.get("incomplete") and "error" not in res and not res.get("apply"):
            quiet += 1
            continue
        print(os.path.basename(res["dir"]) if "C" in os.path.basename(res["dir"]) else res["dir"], "fired=", res.get("fired"), "incomplete=", res.get("incomplete"), res.get("apply") or res.get("error", ""))
        for p, ls in (res.get("reports") or {}).items():
            for l in ls[:3]:
                print("    ", p, l[:300])
print(f"{quiet}/{len(dirs)} quiet and complete")
