#!/venv/bin/python
"""Regenerates /verif/MANIFEST.json from the table below (keeps it schema-valid)."""
import json
import os
import sys

HERE = os.path.dirname(os.path.dirname(os.path.abspath(__file__)))
props = [json.loads(l) for l in open(os.path.join(HERE, "properties.jsonl"))]

# property -> (technique, level text, level note, design ref)
CLAIMS = {
    "C16": (
        "set/reset pairing dataflow with exceptional edges + who-may-write + call-graph re-entry + path analysis of __post_serialize__",
        "Static analysis of the current source: both option slots are reset on every normal and exceptional exit of as_dict/as_obj, "
        "only those two functions write them, no serialization hook re-enters them, the tag is stored first, outside any sort, and iff not suppressed, "
        "the sorted path fills in key order, overrides add no key after the ordered fill, all serializable families derive from the "
        "tagging mixin. These are structural necessary conditions of C16 decided for every path; the behaviour of mashumaro is not decided.",
        "Assumes mashumaro calls the hooks on every nested object; slot writes atomic; CPython ast parser; analyser self-tested by ./selftest.",
        "DESIGN.md §3 C16",
    ),
}
CLAIMS["C10"] = (
    "effect / ownership analysis: frozen-decorator check, receiver classification of every attribute write and frozen-bypass call, in-place mutation scan, purity of generated code",
    "Static analysis of all non-legacy modules: every node class is a frozen dataclass without __setattr__ overrides; every attribute "
    "store / object.__setattr__ / setattr / __dict__ write is classified by receiver and none targets an existing node; no in-place "
    "container mutation goes through a node attribute; the generated accessors contain no store; the registry-changing operations (detach, detach_self, replace) "
    "are called only from their audited callers (no visitor, serializer or traversal calls them); no function edits its argument in place and recurses into its elements "
    "(payload values may be the node's own); no bypass write uses a field name read from a Field object. A frame condition is a who-may-write "
    "statement, so deciding it over all write sites covers every operation sequence; mutation through user-defined property objects is not decided.",
    "Assumes dataclasses' frozen semantics; receivers are classified from annotations, bindings and an audited two-entry table of fresh locals.",
    "DESIGN.md §3 C10",
)
CLAIMS["C12"] = (
    "partial evaluation of the codegen templates over the finite field-descriptor domain + exhaustive truth tables of the skip flags + sibling comparison with the static variant",
    "The text templates of codegen.py are partially evaluated for every field descriptor (name kind x compare x init, collection or single); the "
    "emitted fragments are parsed and decided: all 32 flag rows for each of 16 descriptors (generated and static variant), identity presence test, "
    "enumeration shape, sort key and mapping order (base properties included), no module-level mutable state in the code generator, no abstract-collection test on child values, exhaustive re-installation on subclasses on every path, the child generators do not depend on how a child field is declared, "
    "to_properties_dict drops nothing. This covers every class a user can define because "
    "a fragment depends on the descriptor only; the order of dataclasses.fields is assumed.",
    "Assumes CPython dataclass field order and dict insertion order; template evaluator handles the string-builder idioms listed in DESIGN.md Appendix C.",
    "DESIGN.md §3 C12",
)
CLAIMS["C01"] = (
    "dependence analysis of the digest input (ordered contribution list vs required/forbidden source table) + encoding decodability + decision tree of is_equal",
    "The ordered contribution list of the string hashed into content_id is recovered from ASTNode.__post_init__ and compared with the property's "
    "own table: class identity, whole field names, type tag and whole rendered value of exactly the comparable properties (flags resolved "
    "against the accessor signature, sorted), field/index/content_id of every child (sorted); nothing from origins, ids, registry, time. "
    "The generators' output does not depend on Field.hash/repr/kw_only; the per-class field tables are keyed by the class object; the text is encoded without a lossy error handler; "
    "no field is assigned through the frozen bypass after construction. Unique decodability and canonical rendering of the value segment are decided (two known findings). content_id is stored once; is_equal "
    "is type identity and content_id equality. Decides these necessary conditions for every node model; hash collisions are not decided.",
    "Assumes blake2b injective on compared inputs and str() of user property types injective; generated accessors decided via C12's template analysis.",
    "DESIGN.md §3 C01",
)
CLAIMS["C05"] = (
    "traversal-schema calculus over worklist algorithms (discipline, sibling order, emission order) + truth table of the loop body over filter/prune outcomes + template analysis of the child enumeration",
    "dfs/bfs are recognised as worklist algorithms; take side vs put side, reversal of the child sequence under each value of bottom_up and the "
    "emission buffer are derived from the container operations and looked up in a fixed calculus (pre-order, post-order, level order); seeds are "
    "the children of the start node; every record is (child, enumerated parent, field, index) of one enumeration tuple; the loop body is decided as "
    "a truth table over filter/prune outcomes; traversals do not recurse on tree depth, keep no visited-set and defer no group that reads a loop variable late; gather is fed from dfs; the accessors are re-installed on every path of "
    "__init_subclass__; child values are not classified by abstract-collection tests; gather's filter formula and delegation are decided; the generated child enumeration yields present "
    "children only, by identity, indexed from 0 in declaration order. Holds for every tree and predicate because these facts do not depend on the tree.",
    "Assumes stdlib list/deque semantics; a traversal rewritten outside the worklist idiom is reported as analysis-incomplete (exit 2), never as a pass.",
    "DESIGN.md §3 C05",
)
CLAIMS["C02"] = (
    "decision tree of _eq_fn over comparison atoms with the position loop abstracted after a full-traversal check; installation, hash-dependence and origin-equality scans",
    "The decision tree of _eq_fn is enumerated over its atoms: it returns True exactly on class identity AND equal content_id AND equal root origin "
    "AND equal origins at every position, the position loop zipping full traversals (dfs/bfs without prune/filter) of both operands and comparing "
    "origins by value; only the class of `other` is read before the class test; __eq__/__hash__ are installed on every path of __init_subclass__, no __ne__ by hand, origin is a compared field; the zipped traversals visit every position (the worklist calculus of C05, no visited-set), origins are never compared as sets; "
    "hash depends on id only and id is written only under construction; origin classes use generated equality. Every atom is the same projection on "
    "both operands, so the relation is an equivalence. CPython's dataclass decorator keeping the installed __eq__ is assumed.",
    "Assumes dataclasses keeps __eq__/__hash__ set by __init_subclass__; content_id equality implies equal shape (C01).",
    "DESIGN.md §3 C02",
)
CLAIMS["C03"] = (
    "ownership / typestate analysis of the registry: who-may-mutate over the whole package, identity-guard dominance, freshness dataflow, pop/restore pairing with exceptional edges, full-traversal detach, id digest dependence, decision tree of get",
    "Every mutation of NODE_REGISTRY is located (all modules) and must be in one of four owner functions; the initialiser is a WeakValueDictionary and no "
    "strong library container receives a node; every removal keyed by X.id is dominated by `entry is X`; every stored key carries a freshness proof on "
    "every path; in replace every exceptional exit after the unregister passes the restore and the success path does not; detach iterates a full traversal; "
    "the id digest input is deterministic (flag tables and per-class field tables of the generated accessor included); get's decision tree equals the specified table. These are necessary conditions on all code paths; registry "
    "contents along histories and GC behaviour are not decided by static analysis.",
    "Assumes WeakValueDictionary semantics; constructing calls between a freshness proof and the store do not claim that key.",
    "DESIGN.md §3 C03",
)
CLAIMS["C14"] = (
    "must-pass-through analysis of duplicate (decision tree per child field), form of replace, pop/restore pairing dataflow shared with C03",
    "In duplicate every value stored for a child field derives from the original only through .duplicate() (single nodes and each tuple element; both kinds "
    "have a storing path) and the result is dataclasses.replace(self, **changes); replace unregisters first, constructs through dataclasses.replace(self, **kwargs), "
    "restores the entry on every exceptional exit and only then; removals are identity guarded; the collision suffix of a new id is derived from the registry alone and the id returned is proven free; the given values reach dataclasses.replace unchanged; "
    "originals and copies are not paired through a map keyed by node objects or ids. Decides independence/faithfulness structurally for every tree; "
    "which id results is history dependent and not decided.",
    "Assumes dataclasses.replace semantics (re-runs __init__ with current init-field values).",
    "DESIGN.md §3 C14",
)
CLAIMS["C15"] = (
    "finite order-type evaluation (all weak orderings of 4 and 6 symbolic points) of the comparison methods + decision trees of the merge functions",
    "CodePoint/CodeRange are touched only through comparisons of .index, so their comparison methods are decided over every weak ordering of the points "
    "involved (75 orderings of 4 points for the binary laws, 4683 of 6 points for transitivity/associativity, exhaustive): equivalence with the reference "
    "formulas and the algebraic laws; construction guards at boundary values; decision trees of CodeOrigin.__add__ and merge_origins, single construction "
    "site of MultiOrigin (operands never handed back, no total_ordering synthesis), concat_origins is the left fold of +, operand-order inference in MultiOrigin.__post_init__, exact slice bounds of get_raw. fqn composition is not decided.",
    "Assumes Python's reflected-operator fallback and min/max semantics; operator dispatch resolved through the analysed class table.",
    "DESIGN.md §3 C15",
)
CLAIMS["C13"] = (
    "truth table of the bool/int guard, length-guard dominance of the fixed-tuple zip (decision tree with integer domains), effect analysis of the gating block",
    "The leading guard of is_instance equals `annotation is int and value is a bool` on all rows; the element-wise zip for fixed tuples is reached only with equal "
    "lengths; the block gated by config.RUNTIME_TYPE_CHECK is entered exactly when the flag is on, has no effect besides raising, checks every field except "
    "id/content_id irrespective of init, reads the field map of the class itself (no inherited cache) and raises InvalidTypes with exactly the non-conforming fields; annotations reach "
    "the check through plain get_type_hints; a union is decided by `any` member, never by one selected member. is_instance over the whole annotation grammar is not decided.",
    "Assumes typing introspection helpers behave as documented.",
    "DESIGN.md §3 C13",
)
CLAIMS["C09"] = (
    "decision trees of accept, of the per-child loop body of _transform_children (identity atoms) and of generic_visit",
    "accept branches on visitor.strict (own class only vs first hit along the MRO in order) with generic_visit fallback; in _transform_children every child is visited "
    "once, removed elements are dropped and mark the field, kept elements are appended in order and mark the field iff they are a different object (identity), single fields "
    "are set and marked iff different; only marked fields are returned, lists become tuples; generic_visit returns the same node when nothing changed and "
    "dataclasses.replace otherwise. These path facts hold for every tree and visitor; user visitor methods are not decided.",
    "Assumes inspect.getmro order; input immutability is decided by C10's effect analysis.",
    "DESIGN.md §3 C09",
)
CLAIMS["C07"] = (
    "grammar<->transformer arity agreement (lark grammar loader on the lifted literal), truth table of the shared step predicate, must-pass-through of the root sanitiser, decision tree of the bottom-up matcher",
    "The xpath grammar literal is loaded and each rule is compared with what its transformer callback consumes (a variadic kept terminal needs a callback that uses all arguments: "
    "all index digits significant); findall and match decide every step with one predicate whose truth table over six atoms equals the documented formula; both present the root "
    "without field and index; '//' iterates a full traversal (findall) / every proper ancestor (match), '/' the direct children / parent; find is the first of findall; an xpath text is parsed on every construction (no cache of compiled paths, no one-shot iterator kept on the compiled object); the empty-step marker stands for "
    "an element without children only. "
    "These are necessary conditions on all paths; equivalence of the two algorithms as programs is not decided.",
    "Assumes lark's argument filtering (anonymous tokens dropped) and Tree.get_parent_info's root convention (C06).",
    "DESIGN.md §3 C07",
)
CLAIMS["C08"] = (
    "decision trees of the matcher methods with integer length domains, singleton-state and post-init idempotence checks over the dataclass field table, purity scan",
    "Per matcher method the decision tree is enumerated: regex API is match on str(value); node values compare by is_equal; the sequence length relation (equal / at least the listed "
    "elements, with the tail representation read from __post_init__) dominates the zip for all lengths 0..3; isinstance over all class alternatives; BaseMatcher.match captures the very "
    "object and returns {} on failure; tail slice; no matcher is a state-carrying singleton; no __post_init__ derives a non-init field from an init field it rewrites; match bodies store "
    "nothing; cache filled only on success; first matching rule in order; a set tail capture is consulted on every successful path; every compilation uses a fresh interpreter; no rule is skipped on an exact-class test; class-name lookups are not memoised. The recursive semantics over all pattern x node pairs is not decided.",
    "Assumes re.Pattern.match and dataclasses.replace semantics.",
    "DESIGN.md §3 C08",
)
CLAIMS["C17"] = (
    "exception-escape dataflow over the compile entry points, sibling ladder comparison, grammar exhaustiveness against the interpreter, post-init idempotence",
    "For ASTXpath.__init__, from_pattern, validate_pattern and MultiPatternMatcher.__init__ every call on the text's data flow sits under a catch-all that converts to the definition error "
    "or an error tuple, and only the definition error can escape; validate_pattern and from_pattern have the same ladder; every rule of the pattern grammar has an interpreter handler and vice "
    "versa; a re-run __post_init__ cannot reject a grammatical text; both grammars ignore whitespace and no terminal swallows a token that also stands on its own; nothing compiled is memoised across calls; a capture is registered after the value it follows was compiled; string literals are unquoted by slicing; "
    "the entry points reject the same texts before parsing. Totality of lark and equality of matching behaviour of two compilations are not decided.",
    "Assumes lark raises Exception subclasses; str methods on the text do not raise.",
    "DESIGN.md §3 C17",
)
CLAIMS["C04"] = (
    "typestate decision tree of ASTNode._deserialize, writer/reader table agreement, placeholder->singleton mapping, format pairing, index table pairing",
    "Static analysis decides the structural clauses of the round trip: a registry hit under the serialized id is returned as is; otherwise the re-created node's id is compared with "
    "the serialized one and, if different, the provisional key is removed, the id forced and the node registered under it, in that order; the tag key and value agree between writer and "
    "reader, subclasses are registered under their class name, unknown names raise; every {} placeholder is mapped back to its singleton, singletons carry no init-able state; each "
    "to_X/from_X pair uses the same dialect and the writer passes layout-only codec options (audited option tables for orjson and MessagePack); deserialization unregisters only the provisional entry of the node it built; the source index is written and read against tables filled together; "
    "the common source of a MultiOrigin is decided by value equality. The value-level fidelity of the round trip "
    "(mashumaro code generated at run time, orjson, msgpack, yaml) cannot be decided by static analysis and is not claimed.",
    "Assumes mashumaro/orjson/msgpack/PyYAML round-trip the representable values; registry states along histories are not decided.",
    "DESIGN.md §3 C04",
)
CLAIMS["C06"] = (
    "structural analysis of the table fill (full traversal, same-record triples, xpath spelling), identity discipline scan, decision trees of the queries",
    "Both Tree tables are filled from one full traversal with (parent, field, index) of the same record; the xpath of a node is its parent's xpath plus '/@field[index or 0]Class'; the "
    "membership table contains the root, the parent table does not; all node comparisons in the queries are identity tests; foreign nodes hit a table subscription (KeyError), a relative depth to a "
    "non-ancestor raises ValueError; get_ancestors is the parent chain starting at the parent; is_ancestor / get_first_ancestor_of_type / get_depth / is_root are decided as decision trees (every answer follows a lookup of the node); to_tree returns a fresh Tree(self); the traversal the tables are filled from is decided by the worklist calculus of C05. "
    "That following the xpath string reaches the node is not decided.",
    "Premise of the property: nodes hash by id and no node object occurs twice.",
    "DESIGN.md §3 C06",
)
CLAIMS["C11"] = (
    "decision tables of the two classification loops, normaliser must-pass-through, sibling agreement of the recursive predicates",
    "process_node_fields' per-field decision table over the three predicate outcomes lands every field in exactly one of child table / property table / error list, never a node-mentioning "
    "annotation in the property table, and raises when the error list is non-empty; check_annotations has the same table and runs on every subclass definition; every annotation reaches the "
    "classifier through get_type_hints; the recursive predicates' treatment of NewType is compared (one known finding); the mutable-collection gatekeeper tests the Mutable* ABCs and has no early negative exit. The shape predicates themselves (typing introspection over the "
    "annotation grammar) are not decided.",
    "Assumes typing.get_type_hints semantics.",
    "DESIGN.md §3 C11",
)
CLAIMS["C18"] = (
    "identity-discipline scan, decision trees of the link-maintaining primitives, dependence analysis of the legacy digest",
    "Necessary conditions on the hand-maintained redundancy of legacy nodes are decided on the source: upward queries compare nodes by identity (no == / in over ancestor streams) and answer from the live parent links, never from the cached xpath; an id rewrite of an existing node is followed "
    "by re-attaching it; _reset_content_id walks the whole "
    "parent chain and _replace_child calls it whenever a child is removed or its content id differs; wherever a child is stored its parent triple is set to exactly (parent, field, index) "
    "of the same tuple, later siblings shift by -1 on removal, detach unlinks children and pops the entry; the legacy content digest depends on class, comparable properties and "
    "(field, index, content_id) of children only. The invariant over histories is a reachability statement that static analysis does not decide and is not claimed.",
    "Premise: no node object is placed at two positions; weak registry semantics.",
    "DESIGN.md §3 C18",
)
CLAIMS["C20"] = (
    "traversal-schema calculus + filter/prune truth table on the legacy worklists, grammar arity, escape analysis, truth table of the legacy step test",
    "The calculus and truth tables of C05 applied to legacy dfs/bfs (seed is the start node, exempt from filter/prune/emission exactly when skip_self, which is reset), legacy gather's "
    "formula and delegation, legacy xpath grammar vs transformer (all index digits), only the definition error escapes the legacy ASTXpath constructor, the legacy step test equals the "
    "documented formula, the per-step anywhere flag does not leak into the next step, the accessors keep no copy of their answer on the node, calculate_xpath/_set_xpath spell field, index and class and recurse over all children. Agreement of legacy match with the v2 semantics over all paths is not decided.",
    "Assumes stdlib deque semantics and lark's argument filtering.",
    "DESIGN.md §3 C20",
)
CLAIMS["C19"] = (
    "effect / compensation dataflow with exceptional edges over the legacy operations, helper summaries re-confirmed against their bodies",
    "For replace, replace_with, _attach_inner (via __post_init__/attach), the transform visitor and the transformer, the set of outstanding effect primitives on pre-existing nodes "
    "(parent cleared/set, registry pop/store, id/original_id rewritten, completed replacements) is carried with branch facts to every failure exit; an effect that reaches a failure "
    "exit without its inverse is reported. The four genuine defects found this way are listed as known findings (keyed by operation and effect); any other uncompensated effect fails the "
    "check. Pre-checks precede the first effect and compare children by the registry id, transformed subtrees are clones whose child collections are copied for every collection kind the enumeration walks into; rejections are reached before the first effect on every path. Whether restored values equal the old values in every history is not decided.",
    "Assumes parent/registry primitives and compensation code in handlers do not raise; asserts state beliefs and are not failure exits.",
    "DESIGN.md §3 C19, Appendix B",
)
# necessary conditions added with the fourth and fifth held-out rounds (DESIGN.md §9.9, §9.10): state that outlives a call, error paths, helpers
STATE = (" State that outlives a call: no table kept at module / class level and consulted on the way from this property's entry points is keyed by a node id, "
         "a class or source name, or a node object, and no class test is made against a tuple extended at run time (positive patterns; DESIGN.md §9.10-9.12: also memoised "
         "functions on live values, cached closures, one-shot iterators kept or consumed twice, switches reset without try/finally, mutable defaults).")
EXTRA = {
    "C01": " Every child position contributes to the digest (no child skipped under a condition, no de-duplication in the generated enumeration)." + STATE,
    "C02": " The walk over the positions is never pruned." + STATE,
    "C03": (" A registry store enters the object under construction / just removed, never an enumerated existing node; a caught exception is not kept in a local "
            "that outlives its handler (frame/traceback cycle keeping nodes alive); get() compares class objects, not class names; accessors are re-installed on every subclass." + STATE),
    "C04": (" Every compared field annotated with an abstract sequence type is brought to one concrete container at construction (a tuple and the list read back compare equal; F25, fixed); "
            "clear_registry has no call site in the library; deserialization hooks do not edit the payload they are given; serialization hooks keep no copy of their result beyond the call; the source tables are "
            "reached through the owning class whenever clear_registry rebinds them through cls."),
    "C05": (" No child value is classified by an abstract-collection test (helpers of later origin included); no one-shot iterator is consumed twice on a path; "
            "no mutable default argument is filled." + STATE),
    "C06": (" get_first_ancestor_of_type has no exit before the ancestors were searched; a KeyError of a table lookup is never turned into another outcome." + STATE),
    "C07": (" findall never prunes its descendant walk; index_spec returns an int on every path (element() tells step parts apart by type)." + STATE),
    "C08": " The context handed to sub-matchers derives from the context received; the matcher cache is keyed by the full text." + STATE,
    "C09": (" No visitor method runs inside an iterator's __next__ (map/filter) or inside a try whose handler does not re-raise; the MRO walk stops at the first class "
            "(no overwrite-in-loop)." + STATE),
    "C10": (" Construction does not register enumerated existing nodes; visitors do not call detach/replace; origin arithmetic does not extend a container taken from an operand."),
    "C11": (" The visited set of a recursive predicate is keyed by the annotation itself; is_collection excludes no mutable type; the per-class tables are not filled "
            "while a classifier stream is still running; the stored annotation is never widened."),
    "C12": (" The generated parameter list has the public positional order and defaults; get_field_types fills its result in dataclasses.fields order." + STATE),
    "C13": (" Membership tests of the value compare with == (no hash container); the stored annotation is never widened; elements of a collection value are checked with is_instance, never bare isinstance; "
            "InvalidTypes is constructed by the gate only; no memoised function receives live values; no one-shot iterator is kept in a table; the type stored as "
            "FieldTypeInfo.resolved_type is the whole resolved annotation (the name stored is never re-bound to get_args / a member of the annotation).") + STATE,
    "C14": (" __post_init__ stores derived (init=False) fields only; a replace() without any registry store cannot restore the entry; accessors are re-installed on "
            "every subclass." + STATE),
    "C15": " The common-source test ranges over all members (no filtered list); no container of an operand is extended in place." + STATE,
    "C16": (" Every to_dict / from_dict of the mixin hooks passes the call's dialect unless the slot is known to be None on that path; format front-ends convert through as_dict / as_obj; "
            "the option mapping obtained through the getter is never written; a _serialize override goes through super()._serialize() or returns the empty placeholder."),
    "C17": (" The matcher cache discipline (full text as key, filled on success only) is checked here too; every occurrence of a sub-pattern is visited "
            "(no table of compiled parse trees); every capture name given to a matcher in the interpreter is a value returned by the duplicate check "
            "(_check_unique_and_get_capture), never one read off the parse tree; no text assembled at run time is parsed as a str.format template in a compile entry point."),
    "C18": (" The parent's field is rewritten whenever the node has a parent; the held child sequence is never edited in place; the release of the old node in replace() "
            "does not depend on the replaced values; no node is looked up among nodes by equality; no class-attribute cache is inherited." + STATE),
    "C19": (" No blanket detach of claimed children on a failure path; positions restored after a rejection are the recorded ones (no equality search); "
            "no class-attribute cache of replaceable fields is inherited."),
    "C20": " No mutable default argument is filled; no one-shot iterator is consumed twice; index_spec of the legacy transformer returns an int on every path.",
}
GATE_NOTE = (" Verdicts that rest on not finding a construct are withheld (exit 2, analysis incomplete) for functions rewritten beyond recognition "
             "(shape gate, DESIGN.md §9.9); verdicts naming a construct that is present are never withheld.")
for _pid, _extra in EXTRA.items():
    _t = CLAIMS[_pid]
    CLAIMS[_pid] = (_t[0], _t[1] + _extra, _t[2] + GATE_NOTE, _t[3])
PENDING = "check not built yet (work in progress; see DESIGN.md for the planned static rules)"

checks = []
na = []
for p in props:
    pid = p["id"]
    if pid in CLAIMS:
        tech, text, note, ref = CLAIMS[pid]
        checks.append({
            "property_id": pid,
            "quick_cmd": f"./check {pid} --tier quick",
            "thorough_cmd": f"./check {pid} --tier thorough",
            "evidence_file": f"/verif/evidence/{pid}.json",
            "replay_cmd_template": f"./check {pid} --replay {{path}}",
            "engine": "pyoakverif",
            "level_claimed": {"category": "other", "text": text, "design_ref": ref},
            "level_note": note,
            "technique": tech,
        })
    else:
        na.append({"property_id": pid, "reason": PENDING})

m = {
    "version": 1,
    "setup_cmd": "/venv/bin/python -c \"import ast, sys; sys.path.insert(0, '/verif'); import pyoakverif.report\"",
    "hooks": {
        "guard": "PYOAK_VERIF",
        "enable": "no source hooks: the analysis reads /repo/src/pyoak as text and never runs it",
        "baseline_off_cmd": "cd /repo && /venv/bin/python -m pytest -ra -q -p no:cacheprovider --timeout=900 --continue-on-collection-errors",
        "source_commits": [],
        "add_only": True,
    },
    "engines": [{
        "name": "pyoakverif",
        "path": "/verif/pyoakverif",
        "serves_properties": [c["property_id"] for c in checks],
        "kind_free_text": "repository-specific static analyser (stdlib ast; flow interpreter, truth-table / order-type deciders, template partial evaluator, call graph) over /repo/src/pyoak",
    }],
    "checks": checks,
    "notes": "Static-analysis family only; see DESIGN.md. Exit 2 = analysis incomplete (anchor vanished / idiom outside the enumerated tables / verdict withheld by the shape gate): neither pass nor alarm; never produced on the audited tree.",
    "not_applicable": na,
}
json.dump(m, open(os.path.join(HERE, "MANIFEST.json"), "w"), indent=1)
print(f"{len(checks)} checks, {len(na)} not applicable")
