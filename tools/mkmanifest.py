#!/venv/bin/python
"""Regenerates /verif/MANIFEST.json from the table below (keeps it schema-valid)."""
import json
import os
import sys

HERE = os.path.dirname(os.path.dirname(os.path.abspath(__file__)))
props = [json.loads(l) for l in open(os.path.join(HERE, "properties.jsonl"))]

# property -> (technique, level text, level note, design ref)
CLAIMS = {
    "C16": (
        "set/reset pairing dataflow with exceptional edges + who-may-write + call-graph re-entry + path analysis of __post_serialize__",
        "Static analysis of the current source: both option slots are reset on every normal and exceptional exit of as_dict/as_obj, "
        "only those two functions write them, no serialization hook re-enters them, the tag is stored first and iff not suppressed, "
        "the sorted path fills in key order, overrides add no key after the ordered fill, all serializable families derive from the "
        "tagging mixin. These are structural necessary conditions of C16 decided for every path; the behaviour of mashumaro is not decided.",
        "Assumes mashumaro calls the hooks on every nested object; slot writes atomic; CPython ast parser; analyser self-tested by ./selftest.",
        "DESIGN.md §3 C16",
    ),
}
PENDING = "check not built yet (work in progress; see DESIGN.md for the planned static rules)"

checks = []
na = []
for p in props:
    pid = p["id"]
    if pid in CLAIMS:
        tech, text, note, ref = CLAIMS[pid]
        checks.append({
            "property_id": pid,
            "quick_cmd": f"./check {pid} --tier quick",
            "thorough_cmd": f"./check {pid} --tier thorough",
            "evidence_file": f"/verif/evidence/{pid}.json",
            "replay_cmd_template": f"./check {pid} --replay {{path}}",
            "engine": "pyoakverif",
            "level_claimed": {"category": "other", "text": text, "design_ref": ref},
            "level_note": note,
            "technique": tech,
        })
    else:
        na.append({"property_id": pid, "reason": PENDING})

m = {
    "version": 1,
    "setup_cmd": "/venv/bin/python -c \"import ast, sys; sys.path.insert(0, '/verif'); import pyoakverif.report\"",
    "hooks": {
        "guard": "PYOAK_VERIF",
        "enable": "no source hooks: the analysis reads /repo/src/pyoak as text and never runs it",
        "baseline_off_cmd": "cd /repo && /venv/bin/python -m pytest -ra -q -p no:cacheprovider --timeout=900 --continue-on-collection-errors",
        "source_commits": [],
        "add_only": True,
    },
    "engines": [{
        "name": "pyoakverif",
        "path": "/verif/pyoakverif",
        "serves_properties": [c["property_id"] for c in checks],
        "kind_free_text": "repository-specific static analyser (stdlib ast; flow interpreter, truth-table / order-type deciders, template partial evaluator, call graph) over /repo/src/pyoak",
    }],
    "checks": checks,
    "notes": "Static-analysis family only; see DESIGN.md. Exit 2 = analysis incomplete (anchor vanished / idiom outside the enumerated tables): neither pass nor alarm.",
    "not_applicable": na,
}
json.dump(m, open(os.path.join(HERE, "MANIFEST.json"), "w"), indent=1)
print(f"{len(checks)} checks, {len(na)} not applicable")
